"""pyvc.tensor -- symbolic tensors as index functions, and the torch models.

A tensor is (shape, fn): `shape` a tuple of dimensions (python int or z3 Int term, the rank is
always concrete) and `fn` a python closure from a tuple of z3 Int index terms to a z3 scalar term
(Real, Bool or Int; FloatingPoint in IEEE mode).  Pointwise operations and broadcasting follow
torch's rules (alignment from the right, size-1 dimensions stretch).  Reductions produce
`sigma(lambda k. body, n)` terms (uninterpreted; linearity/extensionality instances are added by
pyvc.sigma when an obligation needs them), `any/all` produce quantifiers.

In-place writes (`t[i] = v`, `t[mask] *= c`) mutate the python object, so aliases of the same
tensor object observe them as in torch; *views* sharing storage are not modelled (a write through
a view is out of subset).
"""
from __future__ import annotations

import ast
import itertools

import numpy as np
import torch
import z3

from .core import SV, CheckerError, ExcValue, OutOfSubset, Symbolic, SymRaise, is_sym, kind_of, to_z3
from . import ops
from . import num
from .models import model, method_model, SymCallable, MODELS

R = z3.RealSort()
I = z3.IntSort()
B = z3.BoolSort()

_counter = itertools.count()


def ufun(name, *sorts):
    return z3.Function(name, *sorts)


F_EXP = ufun("exp", R, R)
F_LOG = ufun("log", R, R)
F_SIGMOID = ufun("sigmoid", R, R)
F_SQRT = ufun("sqrt", R, R)
F_ISNAN = ufun("isnan", R, B)      # always False in real mode (see model of torch.isnan)


def dim_eq(a, b):
    if isinstance(a, int) and isinstance(b, int):
        return a == b
    if isinstance(a, int) or isinstance(b, int):
        return None
    return True if a.eq(b) else None


def dim_z3(d):
    return z3.IntVal(d) if isinstance(d, int) else d


# In-place updates (t[idx] = v, t[mask] = c, havoc) give a tensor object a new index function.  Tensors derived from it
# EARLIER (their index functions call `t.fn` lazily) must keep reading the value it had when they were created: every
# index function is stamped with its creation time, evaluating it clamps the "current time" to that stamp, and `t.fn`
# returns the version of t that was current at that time.
_CLOCK = [0]
_NOW = [float("inf")]
import os as _os
_NOVERSION = bool(_os.environ.get("PYVC_NO_TENSOR_VERSIONS"))


class STensor(Symbolic):
    def __init__(self, shape, fn, dtype="real", name=None):
        self.shape_ = tuple(shape)
        self._versions = []
        self.fn = fn
        self.dtype = dtype     # 'real' | 'bool' | 'int'
        self.name = name or f"t{next(_counter)}"

    @staticmethod
    def _stamped(fn, born):
        if getattr(fn, "_born", None) is not None and fn._born <= born:
            return fn              # already clamps to an earlier (or the same) time

        def at_time(idx):
            prev = _NOW[0]
            if born < prev:
                _NOW[0] = born
            try:
                return fn(idx)
            finally:
                _NOW[0] = prev
        at_time._born = born
        return at_time

    @property
    def fn(self):
        now = _NOW[0] if not _NOVERSION else float("inf")
        for tm, f in reversed(self._versions):
            if tm <= now:
                return f
        return self._versions[0][1]

    @fn.setter
    def fn(self, new):
        if self._versions:
            _CLOCK[0] += 1         # an in-place update: later than everything created so far
        born = _CLOCK[0]
        self._versions.append((born, STensor._stamped(new, born)))

    def _write(self, it, newfn):
        """in-place update of this tensor object: a new version of its index function; a tensor obtained by basic indexing /
        detach() / float() of another one is a VIEW of it (same storage): the update is written through to the tensor it views"""
        self.fn = newfn
        v = getattr(self, "_view", None)
        if v is None:
            it.cx.log_write(("obj", id(self), None))        # (a view has no storage of its own: the write is the viewed tensor's)
            self._refresh_views()                           # every view taken of this tensor shows the update
        else:
            base, in_view, to_view = v
            old = base.fn
            nf = self.fn
            base._write(it, lambda b: z3.If(in_view(b), nf(to_view(b)), old(b)) if not z3.is_true(in_view(b)) else nf(to_view(b)))
        st = getattr(self, "_storage_of", None)
        if st is not None and st is not self:
            st._write(it, self.fn)          # copy.copy(tensor): another object on the same storage

    def _refresh_views(self):
        cur = self.fn
        for w in getattr(self, "_views", ()):
            fwd = w._view_fwd
            w.fn = (lambda idx, cur=cur, fwd=fwd: cur(fwd(idx)))
            w._refresh_views()

    def _register_view(self, view, fwd):
        view._view_fwd = fwd
        if not hasattr(self, "_views"):
            self._views = []
        self._views.append(view)

    # ------------------------------------------------------------------ construction helpers
    @staticmethod
    def sym(cx, name, shape, dtype="real"):
        sort = {"real": R, "bool": B, "int": I, "fp32": num.F32, "fp64": num.F64}[dtype]
        if dtype.startswith("fp"):
            dtype = "real"   # a float tensor whose elements are IEEE values
        nm = name if cx is None else name
        if len(shape) == 0:
            c = z3.Const(nm, sort)
            return STensor((), lambda idx: c, dtype, name)
        f = z3.Function(nm, *([I] * len(shape) + [sort]))
        return STensor(shape, lambda idx: f(*idx), dtype, name)

    @staticmethod
    def const(shape, value, dtype=None):
        if dtype is None:
            dtype = "bool" if isinstance(value, bool) else ("real" if True else "int")
        e = scalar_to_elem(value, dtype)
        return STensor(shape, lambda idx: e, dtype)

    @property
    def ndim(self):
        return len(self.shape_)

    def at(self, *idx):
        idx = tuple(z3.IntVal(i) if isinstance(i, int) else i for i in idx)
        return self.fn(idx)

    def elem_real(self, idx):
        e = self.fn(idx)
        if self.dtype == "bool":
            return z3.If(e, z3.RealVal(1), z3.RealVal(0))
        if self.dtype == "int":
            return z3.ToReal(e)
        return e

    def in_range(self, idx):
        return z3.And(*[z3.And(0 <= i, i < dim_z3(d)) for i, d in zip(idx, self.shape_)]) if idx else z3.BoolVal(True)

    def fresh_idx(self, cx, base="i"):
        return tuple(z3.Int(cx.fresh_name(base)) for _ in self.shape_)

    # ------------------------------------------------------------------ interpreter protocol
    def _isinstance(self, it, k):
        return k in (torch.Tensor, object) or (isinstance(k, type) and issubclass(torch.Tensor, k))

    def _type(self, it):
        return torch.Tensor

    def _fresh_like(self, cx, base):
        return STensor.sym(cx, cx.fresh_name(base), self.shape_, self.dtype)

    def _havoc(self, cx):
        t = STensor.sym(cx, cx.fresh_name(self.name), self.shape_, self.dtype)
        self.fn = t.fn
        self._refresh_views()

    def _deepcopy(self, it, memo):
        return STensor(self.shape_, self.fn, self.dtype, self.name + "'")

    def _copy(self, it):
        # copy.copy(tensor): a new tensor object on the SAME storage (an in-place update of one is seen through the other)
        t = STensor(self.shape_, self.fn, self.dtype, self.name + "~")
        t._storage_of = getattr(self, "_storage_of", self)
        return t

    def _len(self, it):
        if not self.shape_:
            ops.raise_(TypeError, "len() of a 0-d tensor")
        d = self.shape_[0]
        return d if isinstance(d, int) else SV(d, "int")

    def _truth(self, it):
        if self.ndim == 0 or all(isinstance(d, int) and d == 1 for d in self.shape_):
            e = self.fn(tuple(z3.IntVal(0) for _ in self.shape_))
            if self.dtype == "bool":
                return SV(e, "bool")
            return SV(e != 0, "bool")
        ops.raise_(RuntimeError, "Boolean value of Tensor with more than one value is ambiguous")

    def _float(self, it):
        if self.ndim == 0:
            return SV(self.elem_real(()), "real")
        raise OutOfSubset("float() of a non-scalar tensor")

    def _int(self, it):
        if self.ndim == 0:
            from .models import m_int
            return m_int(it, SV(self.elem_real(()), "real"))
        raise OutOfSubset("int() of a non-scalar tensor")

    def _abs(self, it):
        return unary(self, num.absv)

    def _unop(self, it, name, node):
        if name == "neg":
            return unary(self.as_num(), num.neg)
        if name == "pos":
            return self
        if name == "invert":
            if self.dtype != "bool":
                raise OutOfSubset("~ on a non-boolean tensor", node)
            return unary(self, lambda e: z3.Not(e), "bool")

    def as_num(self):
        if self.dtype == "bool":
            return STensor(self.shape_, lambda idx: z3.If(self.fn(idx), z3.RealVal(1), z3.RealVal(0)), "real")
        return self

    def _binop(self, it, name, other, rev, node, inplace):
        if isinstance(other, MaskedView):
            return NotImplemented
        if getattr(other, "_is_weighted", False) or (hasattr(other, "cls") and getattr(other.cls, "__name__", "") == "WeightedTensor"):
            return NotImplemented
        o = as_tensor(it, other)
        if o is None:
            return NotImplemented
        a, b = (o, self) if rev else (self, o)
        if inplace and not rev:
            # t op= other: the SAME tensor object is updated (every holder of it -- a cache, a snapshot by reference -- sees it)
            cur = STensor(self.shape_, self.fn, self.dtype, self.name)
            r = tensor_binop(it, name, cur, o, node)
            if len(r.shape_) != len(self.shape_) or any(dim_eq(x, y) is not True and it.cx.check(dim_z3(x) != dim_z3(y)) != z3.unsat
                                                       for x, y in zip(r.shape_, self.shape_)):
                raise OutOfSubset("in-place tensor operator whose result has another shape than its target", node)
            if r.dtype != self.dtype:
                if self.dtype == "real":
                    r = STensor(r.shape_, r.elem_real, "real")
                elif self.dtype == "bool" and o.dtype == "bool" and name in ("add", "mul"):
                    # torch: `+` / `*` of two boolean tensors are `or` / `and` (a boolean result)
                    rf = r.fn
                    r = STensor(r.shape_, lambda idx: rf(idx) != 0, "bool")
                elif self.dtype == "bool" and o.dtype == "real":
                    ops.raise_(RuntimeError, "result type Float can't be cast to the desired output type Bool", node=node)
                else:
                    raise OutOfSubset("in-place tensor operator changing the element type", node)
            self._write(it, r.fn)
            return self
        return tensor_binop(it, name, a, b, node)

    def _compare(self, it, name, other, rev, node):
        if hasattr(other, "cls") and getattr(other.cls, "__name__", "") == "WeightedTensor":
            return NotImplemented
        o = as_tensor(it, other)
        if o is None:
            return NotImplemented
        a, b = (o, self) if rev else (self, o)
        return tensor_compare(it, name, a, b, node)

    def _getitem(self, it, idx, node=None):
        return tensor_getitem(it, self, idx, node)

    def _setitem(self, it, idx, v, node=None):
        return tensor_setitem(it, self, idx, v, node)

    def _getattr(self, it, name, node=None):
        if name == "shape":
            return tuple(d if isinstance(d, int) else SV(d, "int") for d in self.shape_)
        if name == "ndim":
            return self.ndim
        if name == "T":
            return transpose(self)
        if name == "dtype":
            return {"real": torch.float32, "bool": torch.bool, "int": torch.int64}[self.dtype]
        if name == "device":
            return torch.device("cpu")
        if name == "requires_grad":
            return False
        m = TENSOR_METHODS.get(name)
        if m is not None:
            return SymCallable(lambda it_, *a, **k: m(it_, self, *a, **k), f"Tensor.{name}")
        raise OutOfSubset(f"tensor attribute {name}", node)

    def _unpack(self, it, n, node):
        d = self.shape_[0]
        if not isinstance(d, int) or d != n:
            raise OutOfSubset("unpacking a tensor of symbolic length", node)
        return [tensor_getitem(it, self, k, node) for k in range(n)]

    def _native_iter(self, it, node=None):
        d = self.shape_[0]
        if not isinstance(d, int):
            raise OutOfSubset("iteration over a tensor of symbolic length", node)
        return [tensor_getitem(it, self, k, node) for k in range(d)]


class MaskedView(Symbolic):
    """t[mask] for a boolean mask: only meaningful as the source/target of an in-place update"""

    def __init__(self, base: STensor, mask: STensor, fn=None):
        self.base = base
        self.mask = mask
        self.fn = fn or base.fn   # values on the full index space

    def _binop(self, it, name, other, rev, node, inplace):
        o = as_tensor(it, other)
        if o is None or o.ndim != 0:
            raise OutOfSubset("masked selection combined with a non-scalar", node)
        full = STensor(self.base.shape_, self.fn, self.base.dtype)
        a, b = (o, full) if rev else (full, o)
        r = tensor_binop(it, name, a, b, node)
        return MaskedView(self.base, self.mask, r.fn)


def scalar_to_elem(v, dtype):
    if isinstance(v, SV):
        if dtype == "real":
            return to_z3(v, "real")
        if dtype == "int":
            return to_z3(v, "int")
        return v.e
    if dtype == "bool":
        return z3.BoolVal(bool(v))
    if dtype == "int":
        return z3.IntVal(int(v))
    return to_z3(float(v) if isinstance(v, int) and not isinstance(v, bool) else v, "real") if not isinstance(v, bool) \
        else z3.RealVal(1 if v else 0)


def as_tensor(it, v):
    """scalar / SV / STensor / native torch tensor -> STensor (None if not tensor-like)"""
    if isinstance(v, STensor):
        return v
    if isinstance(v, SV):
        if v.kind == "bool":
            return STensor((), lambda idx: v.e, "bool")
        if v.kind == "int":
            return STensor((), lambda idx: v.e, "int")
        if v.kind == "real":
            return STensor((), lambda idx: v.e, "real")
        return None
    if isinstance(v, bool):
        return STensor((), lambda idx: z3.BoolVal(v), "bool")
    if isinstance(v, int):
        return STensor((), lambda idx: z3.IntVal(v), "int")
    if isinstance(v, float):
        e = to_z3(v)
        return STensor((), lambda idx: e, "real")
    if isinstance(v, torch.Tensor):
        return from_native(v)
    if type(v).__name__ == "SSeq" and getattr(v, "pytype", None) is np.ndarray and v.ec.sort in (R, I):
        # a 1-D numpy array held as a symbolic sequence
        return STensor((v.length,), lambda idx: v.at(idx[0]), "real" if v.ec.sort == R else "int")
    return None


def from_native(t: torch.Tensor):
    vals = t.detach().cpu()
    shape = tuple(vals.shape)
    dtype = "bool" if vals.dtype == torch.bool else ("real" if vals.is_floating_point() else "int")
    if vals.numel() > 64:
        raise OutOfSubset("large native tensor constant")
    flat = vals.reshape(-1).tolist()

    def fn(idx):
        # nested ite over concrete positions
        strides = []
        s = 1
        for d in reversed(shape):
            strides.insert(0, s)
            s *= d
        lin = sum((i * st for i, st in zip(idx, strides)), z3.IntVal(0)) if idx else z3.IntVal(0)
        e = scalar_to_elem(flat[-1], dtype) if flat else scalar_to_elem(0, dtype)
        for k in range(len(flat) - 2, -1, -1):
            e = z3.If(lin == k, scalar_to_elem(flat[k], dtype), e)
        return z3.simplify(e) if not idx or all(z3.is_int_value(i) for i in idx) else e
    return STensor(shape, fn, dtype)


# ----------------------------------------------------------------------------------------------------
# broadcasting


def broadcast_shapes(it, sa, sb, node=None):
    n = max(len(sa), len(sb))
    pa = (1,) * (n - len(sa)) + tuple(sa)
    pb = (1,) * (n - len(sb)) + tuple(sb)
    out = []
    for da, db in zip(pa, pb):
        if isinstance(da, int) and da == 1:
            out.append(db)
        elif isinstance(db, int) and db == 1:
            out.append(da)
        else:
            eq = dim_eq(da, db)
            if eq is True:
                out.append(da)
            elif eq is False:
                ops.raise_(RuntimeError, f"The size of tensor a ({da}) must match the size of tensor b ({db})", node=node)
            else:
                # symbolic vs other: must be equal (a symbolic dim equal to 1 is excluded by convention)
                if it.cx.branch(dim_z3(da) == dim_z3(db), node):
                    out.append(da)
                else:
                    ops.raise_(RuntimeError, f"shape mismatch in broadcasting: {sa} vs {sb}", node=node)
    return tuple(out), pa, pb


def _proj(idx, padded, n_out):
    """index of the operand for an output index (size-1 dims read position 0)"""
    k = len(padded)
    sub = idx[n_out - k:]
    return tuple(z3.IntVal(0) if (isinstance(d, int) and d == 1) else i for i, d in zip(sub, padded))


def _op_idx(idx, orig_shape, padded):
    full = _proj(idx, padded, len(idx))
    return full[len(padded) - len(orig_shape):]


def unary(t, f, dtype=None):
    return STensor(t.shape_, lambda idx: f(t.fn(idx)), dtype or t.dtype)


_ARITH = {"add": num.add, "sub": num.sub, "mul": num.mul, "truediv": num.div}


def tensor_binop(it, name, a: STensor, b: STensor, node=None):
    shape, pa, pb = broadcast_shapes(it, a.shape_, b.shape_, node)
    if name in ("and", "or", "xor"):
        if a.dtype != "bool" or b.dtype != "bool":
            raise OutOfSubset("bitwise operator on non-boolean tensors", node)
        f = {"and": z3.And, "or": z3.Or, "xor": z3.Xor}[name]
        return STensor(shape, lambda idx: f(a.fn(_op_idx(idx, a.shape_, pa)), b.fn(_op_idx(idx, b.shape_, pb))), "bool")
    if name == "pow":
        if b.ndim == 0:
            e = b.fn(())
            ev = z3.simplify(e)
            if z3.is_int_value(ev) or (z3.is_rational_value(ev) and ev.denominator_as_long() == 1):
                p = ev.as_long() if z3.is_int_value(ev) else ev.numerator_as_long()
                if 0 <= p <= 6:
                    def fn(idx):
                        x = a.elem_real(_op_idx(idx, a.shape_, pa))
                        r = z3.RealVal(1)
                        for _ in range(p):
                            r = r * x
                        return r
                    return STensor(shape, fn, "real")
        rp = z3.Function("rpow", R, R, R)
        it.cx.axioms_used.add("rpow")
        return STensor(shape, lambda idx: rp(a.elem_real(_op_idx(idx, a.shape_, pa)),
                                             b.elem_real(_op_idx(idx, b.shape_, pb))), "real")
    if name == "matmul":
        return matmul(it, a, b, node)
    if name not in _ARITH:
        raise OutOfSubset(f"tensor operator {name}", node)
    f = _ARITH[name]
    if a.dtype == "int" and b.dtype == "int" and name != "truediv":
        return STensor(shape, lambda idx: f(a.fn(_op_idx(idx, a.shape_, pa)), b.fn(_op_idx(idx, b.shape_, pb))), "int")
    return STensor(shape, lambda idx: f(a.elem_real(_op_idx(idx, a.shape_, pa)),
                                       b.elem_real(_op_idx(idx, b.shape_, pb))), "real")


_CMP = {"lt": num.lt, "le": num.le, "gt": num.gt, "ge": num.ge, "eq": num.eq, "ne": num.ne}


def tensor_compare(it, name, a, b, node=None):
    shape, pa, pb = broadcast_shapes(it, a.shape_, b.shape_, node)
    f = _CMP[name]
    if a.dtype == "bool" and b.dtype == "bool":
        return STensor(shape, lambda idx: f(a.fn(_op_idx(idx, a.shape_, pa)), b.fn(_op_idx(idx, b.shape_, pb))), "bool")
    return STensor(shape, lambda idx: f(a.elem_real(_op_idx(idx, a.shape_, pa)),
                                       b.elem_real(_op_idx(idx, b.shape_, pb))), "bool")


# ----------------------------------------------------------------------------------------------------
# indexing


def _norm_index(t, idx):
    if not isinstance(idx, tuple):
        idx = (idx,)
    # expand Ellipsis
    n_real = sum(1 for i in idx if i is not None and i is not Ellipsis)
    out = []
    for i in idx:
        if i is Ellipsis:
            out.extend([slice(None)] * (t.ndim - n_real))
        else:
            out.append(i)
    n_real = sum(1 for i in out if i is not None)
    out.extend([slice(None)] * (t.ndim - n_real))
    return out


def tensor_getitem(it, t: STensor, idx, node=None):
    if isinstance(idx, STensor) and idx.dtype == "bool":
        return MaskedView(t, idx)
    if isinstance(idx, tuple) and len(idx) == 1 and isinstance(idx[0], STensor) and idx[0].dtype == "bool":
        return MaskedView(t, idx[0])
    if isinstance(idx, tuple) and len(idx) == 0:
        return t
    items = _norm_index(t, idx)
    if sum(1 for i in items if i is not None) > t.ndim:
        ops.raise_(IndexError, "too many indices for tensor", node=node)
    if any(isinstance(i, STensor) and i.ndim == 1 and i.dtype == "int" for i in items):
        # a range next to an index tensor is an index array too (numpy / torch advanced indexing)
        def as_index_array(i):
            if isinstance(i, range) and i.step == 1:
                lo = i.start
                return STensor((len(i),), lambda idx: idx[0] + lo, "int")
            if type(i).__name__ == "SRange":
                lo, hi = to_z3(i.lo, "int"), to_z3(i.hi, "int")
                return STensor((simplify_dim(it.cx, z3.If(hi > lo, hi - lo, z3.IntVal(0))),), lambda idx: idx[0] + lo, "int")
            return i
        items = [as_index_array(i) for i in items]
    adv = [i for i in items if isinstance(i, STensor) and i.ndim == 1 and i.dtype == "int"]
    if adv:
        # t[A, B, ...]: 1-D integer index tensors of one common length on the leading dimensions, full slices after
        k = len(adv)
        if items[:k] != adv or any(not (isinstance(i, slice) and i == slice(None)) for i in items[k:]):
            raise OutOfSubset("advanced (tensor) indexing other than t[A, B, ...] on the leading dimensions", node)
        cx = it.cx
        m = adv[0].shape_[0]
        for a in adv[1:]:
            if dim_eq(a.shape_[0], m) is not True and cx.branch(dim_z3(a.shape_[0]) != dim_z3(m), node):
                ops.raise_(IndexError, "shape mismatch: indexing tensors could not be broadcast together", node=node)
        q = z3.Int(cx.fresh_name("q"))
        inb = z3.And(*[z3.And(-dim_z3(d) <= a.fn((q,)), a.fn((q,)) < dim_z3(d)) for a, d in zip(adv, t.shape_)])
        # safety obligation (an index outside the dimension raises IndexError in torch)
        cx.prove("advanced indexing: every index is inside its dimension",
                 z3.ForAll([q], z3.Implies(z3.And(0 <= q, q < dim_z3(m)), inb)),
                 where=f"line {getattr(node, 'lineno', '?')}")

        def afn(out_idx):
            lead = []
            for a, d in zip(adv, t.shape_):
                v = a.fn((out_idx[0],))
                lead.append(z3.If(v >= 0, v, v + dim_z3(d)))
            return t.fn(tuple(lead) + tuple(out_idx[1:]))
        return STensor((m,) + tuple(t.shape_[k:]), afn, t.dtype)
    new_shape = []
    plan = []   # per source dim: ('fix', z3 int) | ('var', offset)
    src = 0
    for i in items:
        if i is None:
            new_shape.append(1)
            plan.append(("new",))
            continue
        d = t.shape_[src]
        if isinstance(i, slice):
            if i.step not in (None, 1):
                raise OutOfSubset("slice step on tensor", node)
            lo = i.start if i.start is not None else 0
            hi = i.stop
            if is_sym(lo) or is_sym(hi):
                # symbolic bounds: python's slice semantics (negative bounds count from the end, everything clamped to [0, d])
                dz = dim_z3(d)

                def pyclamp(b, default):
                    if b is None:
                        return default
                    bz = to_z3(b, "int")
                    bz = z3.If(bz < 0, bz + dz, bz)
                    return z3.If(bz < 0, z3.IntVal(0), z3.If(bz > dz, dz, bz))
                lo_z = pyclamp(lo if not (isinstance(lo, int) and lo == 0) else None, z3.IntVal(0))
                hi_z = pyclamp(hi, dz)
                nd = simplify_dim(it.cx, z3.If(hi_z > lo_z, hi_z - lo_z, z3.IntVal(0)))
                lo_s = simplify_dim(it.cx, lo_z)
                new_shape.append(nd)
                plan.append(("var", lo_s))
                src += 1
                continue
            if lo == 0 and hi is None:
                nd = d                      # full slice
            elif isinstance(d, int):
                rng = range(d)[lo:hi]
                lo, nd = (rng.start if len(rng) else 0), len(rng)
            else:
                # symbolic dimension d >= 0, concrete (possibly negative) bounds, python clamping rules
                def clamp(b):
                    bz = z3.IntVal(b)
                    return z3.If(bz > d, d, bz) if b >= 0 else z3.If(d + b < 0, z3.IntVal(0), d + b)
                lo_z = clamp(lo)
                hi_z = d if hi is None else clamp(hi)
                nd = simplify_dim(it.cx, z3.If(hi_z > lo_z, hi_z - lo_z, z3.IntVal(0)))
                lo = simplify_dim(it.cx, lo_z) if lo != 0 else 0
            new_shape.append(nd)
            plan.append(("var", lo))
        else:
            if isinstance(i, STensor):
                if i.ndim == 0 and i.dtype == "int":
                    i = SV(i.fn(()), "int")
                else:
                    raise OutOfSubset("advanced (tensor) indexing", node)
            iz = to_z3(i, "int")
            dz = dim_z3(d)
            if it.cx.branch(z3.Or(iz >= dz, iz < -dz), node):
                ops.raise_(IndexError, "index out of range for tensor dimension", node=node)
            plan.append(("fix", z3.simplify(z3.If(iz >= 0, iz, iz + dz))))
        src += 1

    def fn(out_idx):
        src_idx = []
        k = 0
        for p in plan:
            if p[0] == "new":
                k += 1
            elif p[0] == "var":
                src_idx.append(out_idx[k] if (isinstance(p[1], int) and p[1] == 0) else out_idx[k] + p[1])
                k += 1
            else:
                src_idx.append(p[1])
        return t.fn(tuple(src_idx))
    out = STensor(tuple(new_shape), fn, t.dtype)
    # basic indexing returns a view: an in-place update of the result is an update of t (STensor._write)
    shapes_out = list(new_shape)

    def in_view(b):
        cs, k_src, k_out = [], 0, 0
        for p in plan:
            if p[0] == "new":
                k_out += 1
                continue
            if p[0] == "fix":
                cs.append(b[k_src] == p[1])
            else:
                lo_, nd_ = p[1], shapes_out[k_out]
                full = isinstance(lo_, int) and lo_ == 0 and (nd_ is t.shape_[k_src] or dim_eq(nd_, t.shape_[k_src]) is True)
                if not full:
                    cs.append(z3.And(dim_z3(lo_) <= b[k_src], b[k_src] < dim_z3(lo_) + dim_z3(nd_)))
                k_out += 1
            k_src += 1
        return z3.And(*cs) if len(cs) > 1 else (cs[0] if cs else z3.BoolVal(True))

    def to_view(b):
        o, k_src = [], 0
        for p in plan:
            if p[0] == "new":
                o.append(z3.IntVal(0))
                continue
            if p[0] == "var":
                o.append(b[k_src] if (isinstance(p[1], int) and p[1] == 0) else b[k_src] - dim_z3(p[1]))
            k_src += 1
        return tuple(o)
    out._view = (t, in_view, to_view)

    def fwd(out_idx):
        src_idx, k = [], 0
        for p in plan:
            if p[0] == "new":
                k += 1
            elif p[0] == "var":
                src_idx.append(out_idx[k] if (isinstance(p[1], int) and p[1] == 0) else out_idx[k] + p[1])
                k += 1
            else:
                src_idx.append(p[1])
        return tuple(src_idx)
    t._register_view(out, fwd)
    return out


def tensor_setitem(it, t: STensor, idx, v, node=None):
    old = t.fn
    if isinstance(idx, STensor) and idx.dtype == "bool":
        mask = idx
        shape, pa, pb = broadcast_shapes(it, t.shape_, mask.shape_, node)
        if isinstance(v, MaskedView):
            if v.base is not t:
                raise OutOfSubset("masked assignment from another tensor", node)
            newf = v.fn
        else:
            vt = as_tensor(it, v)
            if vt is None or vt.ndim != 0:
                raise OutOfSubset("masked assignment of a non-scalar", node)
            e = vt.elem_real(()) if t.dtype == "real" else vt.fn(())
            newf = lambda idx_: e
        mf = mask.fn
        t._write(it, lambda i: z3.If(mf(_op_idx(i, mask.shape_, pb)), newf(i), old(i)))
        return
    items = _norm_index(t, idx)
    if any(i is None for i in items):
        raise OutOfSubset("None in tensor store index", node)
    conds = []   # per dim: lambda index -> Bool (selected?) and mapping to value index
    fixed = []
    ranges = {}  # source dim -> (lo, hi) of a partial slice lo:hi
    for kdim, (d, i) in enumerate(zip(t.shape_, items)):
        if isinstance(i, slice):
            if i.step is not None:
                raise OutOfSubset("slice step in tensor store", node)
            if i.start is not None or i.stop is not None:
                lo = to_z3(i.start, "int") if i.start is not None else z3.IntVal(0)
                hi = to_z3(i.stop, "int") if i.stop is not None else dim_z3(d)
                # safety obligation: the slice lies inside the dimension (python would clamp, torch then refuses a value of
                # another length); negative bounds are outside the subset
                it.cx.prove("tensor store: slice bounds inside the dimension", z3.And(0 <= lo, lo <= hi, hi <= dim_z3(d)),
                            where=f"line {getattr(node, 'lineno', '?')}")
                ranges[kdim] = (z3.simplify(lo), z3.simplify(hi))
            fixed.append(None)
        else:
            iz = to_z3(i, "int")
            dz = dim_z3(d)
            if it.cx.branch(z3.Or(iz >= dz, iz < -dz), node):
                ops.raise_(IndexError, "index out of range for tensor dimension", node=node)
            fixed.append(z3.simplify(z3.If(iz >= 0, iz, iz + dz)))
    vt = as_tensor(it, v)
    if vt is None:
        raise OutOfSubset("tensor store of a non-tensor value", node)
    free_dims = [k for k, f in enumerate(fixed) if f is None]
    sub_shape = tuple((simplify_dim(it.cx, ranges[k][1] - ranges[k][0]) if k in ranges else t.shape_[k]) for k in free_dims)
    _, pa, pb = broadcast_shapes(it, sub_shape, vt.shape_, node)

    def newfn(i):
        conds = [i[k] == z3.simplify(f) for k, f in enumerate(fixed) if f is not None]
        conds += [z3.And(ranges[k][0] <= i[k], i[k] < ranges[k][1]) for k in free_dims if k in ranges]
        sel = (conds[0] if len(conds) == 1 else z3.And(*conds)) if conds else z3.BoolVal(True)
        sub = tuple((i[k] - ranges[k][0] if k in ranges else i[k]) for k in free_dims)
        val = vt.elem_real(_op_idx(sub, vt.shape_, pb)) if t.dtype == "real" else vt.fn(_op_idx(sub, vt.shape_, pb))
        return z3.If(sel, val, old(i))
    t._write(it, newfn)


def simplify_dim(cx, d):
    """simplify a dimension expression under the current path condition (resolves If(...) of slicing)"""
    if isinstance(d, int):
        return d
    d = z3.simplify(d)
    if z3.is_int_value(d):
        return d.as_long()
    for _ in range(4):
        if not (z3.is_app(d) and d.decl().kind() == z3.Z3_OP_ITE):
            break
        c = d.arg(0)
        if cx.check(z3.Not(c)) == z3.unsat:
            d = z3.simplify(d.arg(1))
        elif cx.check(c) == z3.unsat:
            d = z3.simplify(d.arg(2))
        else:
            break
    if z3.is_int_value(d):
        return d.as_long()
    return d


def transpose(t):
    if t.ndim != 2:
        if t.ndim < 2:
            return t
        raise OutOfSubset(".T on tensor of rank > 2")
    return STensor((t.shape_[1], t.shape_[0]), lambda idx: t.fn((idx[1], idx[0])), t.dtype)


# ----------------------------------------------------------------------------------------------------
# reductions


def _norm_dims(t, dim):
    if dim is None or (isinstance(dim, (tuple, list)) and len(dim) == 0):
        # torch: an empty tuple of dims reduces over all dimensions (sum / mean)
        return tuple(range(t.ndim))
    if isinstance(dim, int):
        dim = (dim,)
    out = []
    for d in dim:
        if is_sym(d):
            raise OutOfSubset("symbolic reduction dimension")
        if d < -t.ndim or d >= t.ndim:
            ops.raise_(IndexError, "Dimension out of range")
        out.append(d % t.ndim)
    return tuple(sorted(set(out)))


SIGMA_DEFS = {}      # function name -> dict(template, param_sorts, sort, fsym)
_SIGMA_BY_TEMPLATE = {}


def _free_consts_in_order(e, skip):
    """0-arity uninterpreted constants of e in first-occurrence (DFS, left-to-right) order"""
    out, seen_c, seen = [], set(), set()
    stack = [e]
    while stack:
        x = stack.pop()
        i = x.get_id()
        if i in seen:
            continue
        seen.add(i)
        if z3.is_quantifier(x):
            stack.append(x.body())
            continue
        if z3.is_app(x):
            if x.num_args() == 0 and x.decl().kind() == z3.Z3_OP_UNINTERPRETED:
                nm = x.decl().name()
                if nm not in seen_c and nm not in skip:
                    seen_c.add(nm)
                    out.append(x)
            else:
                stack.extend(reversed(x.children()))
    return out


def _abstract_index_args(body, k):
    """replace every integer argument of an uninterpreted function that is free of k and is not a plain constant
    (numerals, 1 + c, ...) by a placeholder constant, so that t[0], t[c + 1] and t[i] instantiate the *same* lifted
    template: Sigma_b(c + 1, n) is Sigma_b(i, n) at i = c + 1"""
    mapping = {}

    def rec(e):
        if not z3.is_app(e) or e.num_args() == 0:
            return e
        ch = [rec(c) for c in e.children()]
        if e.decl().kind() == z3.Z3_OP_UNINTERPRETED:
            ch2 = []
            for c in ch:
                plain = z3.is_app(c) and c.num_args() == 0 and c.decl().kind() == z3.Z3_OP_UNINTERPRETED
                if z3.is_int(c) and not plain and not _depends(c, k):
                    key = c.get_id()
                    if key not in mapping:
                        mapping[key] = (z3.Int(f"#idx{len(mapping)}_{key}"), c)
                    ch2.append(mapping[key][0])
                else:
                    ch2.append(c)
            ch = ch2
        if all(a.eq(b) for a, b in zip(ch, e.children())):
            return e
        return e.decl()(*ch)
    return rec(body), mapping


def atomic_sigma(body, k, n, sort=R):
    """the lambda-lifted symbol application for sum_{k<n} body (no algebraic processing)"""
    body, argmap = _abstract_index_args(body, k)
    app = _atomic_sigma(body, k, n, sort)
    if argmap:
        app = z3.substitute(app, *[(c, orig) for c, orig in argmap.values()])
    return app


def _atomic_sigma(body, k, n, sort=R):
    params = _free_consts_in_order(body, {str(k)})
    subst = [(k, z3.Var(0, I))] + [(c, z3.Var(j + 1, c.sort())) for j, c in enumerate(params)]
    tmpl = z3.substitute(body, *subst)
    key = (tmpl.get_id(), tuple(str(c.sort()) for c in params), str(sort))
    ent = _SIGMA_BY_TEMPLATE.get(key)
    if ent is None or not ent["template"].eq(tmpl):
        name = f"Σ{len(SIGMA_DEFS)}"
        fsym = z3.Function(name, *([c.sort() for c in params] + [I, sort]))
        ent = dict(name=name, fsym=fsym, template=tmpl, param_sorts=[c.sort() for c in params], sort=sort)
        SIGMA_DEFS[name] = ent
        _SIGMA_BY_TEMPLATE[key] = ent
    return ent["fsym"](*(params + [dim_z3(n)]))


SIGMA_EXPANSIONS = []     # log of (body, k, expansion-at-k) for the self-check of the normaliser


def _depends(e, k):
    from .core import const_names
    return str(k) in const_names(e)


def _rewrite_divisions(e, k):
    """x / y with y free of k  ->  x * (1 / y)   (so that the polynomial normal form can pull 1/y out)"""
    if not z3.is_app(e) or e.num_args() == 0:
        return e
    ch = [_rewrite_divisions(c, k) for c in e.children()]
    if e.decl().kind() == z3.Z3_OP_DIV and not _depends(ch[1], k) and _depends(ch[0], k):
        return ch[0] * (z3.RealVal(1) / ch[1])
    if all(a.eq(b) for a, b in zip(ch, e.children())):
        return e
    return e.decl()(*ch)


def _find_kronecker(e, k):
    """a subterm If(k == c, a, b) (or c == k) with c free of k, outside quantifiers"""
    stack = [e]
    seen = set()
    while stack:
        x = stack.pop()
        if x.get_id() in seen or not z3.is_app(x):
            continue
        seen.add(x.get_id())
        if x.decl().kind() == z3.Z3_OP_ITE:
            c = x.arg(0)
            if z3.is_eq(c):
                l, r = c.arg(0), c.arg(1)
                if l.eq(k) and not _depends(r, k):
                    return x, r
                if r.eq(k) and not _depends(l, k):
                    return x, l
        stack.extend(x.children())
    return None


def _find_kfree_ite(e, k):
    """a subterm If(cond, a, b) whose condition is free of k while a branch depends on k"""
    stack = [e]
    seen = set()
    while stack:
        x = stack.pop()
        if x.get_id() in seen or not z3.is_app(x):
            continue
        seen.add(x.get_id())
        if x.decl().kind() == z3.Z3_OP_ITE and not _depends(x.arg(0), k) and (_depends(x.arg(1), k) or _depends(x.arg(2), k)):
            return x
        stack.extend(x.children())
    return None


def _indicator(c):
    """real-valued 0/1 indicator of a boolean condition, canonical: I(not d) = 1 - I(d)"""
    c = z3.simplify(c)
    if z3.is_true(c):
        return z3.RealVal(1)
    if z3.is_false(c):
        return z3.RealVal(0)
    if z3.is_not(c):
        return 1 - _indicator(c.arg(0))
    return z3.If(c, z3.RealVal(1), z3.RealVal(0))


def _is_indicator(e):
    return (z3.is_app(e) and e.decl().kind() == z3.Z3_OP_ITE and z3.is_rational_value(e.arg(1)) and
            z3.is_rational_value(e.arg(2)) and e.arg(1).numerator_as_long() == 1 and e.arg(1).denominator_as_long() == 1
            and e.arg(2).numerator_as_long() == 0)


def _hoist_ifs(e, k):
    """If(c, a, b) with a condition depending on k  ->  I(c) * a + (1 - I(c)) * b   (I(c) the 0/1 indicator), so that
    masked expressions written in different but equivalent ways meet in one polynomial normal form"""
    if not z3.is_app(e) or e.num_args() == 0:
        return e
    if e.decl().kind() == z3.Z3_OP_UNINTERPRETED:
        return e        # do not look inside uninterpreted applications (nested sums, inputs)
    ch = [_hoist_ifs(c, k) for c in e.children()]
    if e.decl().kind() == z3.Z3_OP_ITE and z3.is_real(e) and _depends(e.arg(0), k):
        ind = _indicator(e.arg(0))
        a, b = ch[1], ch[2]
        if _is_indicator(e) and z3.is_app(ind) and ind.decl().kind() == z3.Z3_OP_ITE:
            return ind
        return ind * a + (1 - ind) * b
    if all(x.eq(y) for x, y in zip(ch, e.children())):
        return e
    return e.decl()(*ch)


def _monomials(body, k):
    """polynomial normal form of body: list of (coefficient free of k, product of the k-dependent factors or None)"""
    b = z3.simplify(_rewrite_divisions(_hoist_ifs(z3.simplify(body), k), k), som=True, som_blowup=100000, mul_to_power=False, hoist_mul=False)
    terms = b.children() if (z3.is_app(b) and b.decl().kind() == z3.Z3_OP_ADD) else [b]
    out = []
    work = list(terms)
    while work:
        t = work.pop(0)
        pre = []
        # the simplifier folds x * (1/y) back into x / y: peel k-free denominators off again
        while z3.is_app(t) and t.decl().kind() == z3.Z3_OP_DIV and not _depends(t.arg(1), k):
            pre.append(z3.RealVal(1) / t.arg(1))
            t = t.arg(0)
        if pre and z3.is_app(t) and t.decl().kind() == z3.Z3_OP_ADD:
            inv = pre[0]
            for x in pre[1:]:
                inv = inv * x
            work = [c_ * inv for c_ in t.children()] + work
            continue
        factors = t.children() if (z3.is_app(t) and t.decl().kind() == z3.Z3_OP_MUL) else [t]
        factors = list(factors) + pre
        # flatten nested products / divisions among the factors
        flat = []
        stack_f = list(factors)
        while stack_f:
            fct = stack_f.pop(0)
            if z3.is_app(fct) and fct.decl().kind() == z3.Z3_OP_MUL:
                stack_f = list(fct.children()) + stack_f
            elif z3.is_app(fct) and fct.decl().kind() == z3.Z3_OP_DIV and not _depends(fct.arg(1), k) and _depends(fct.arg(0), k):
                stack_f = [fct.arg(0), z3.RealVal(1) / fct.arg(1)] + stack_f
            else:
                flat.append(fct)
        # indicators are idempotent: I(c) * I(c) = I(c)
        dedup, seen_ind = [], set()
        for fct in flat:
            if _is_indicator(fct):
                if fct.get_id() in seen_ind:
                    continue
                seen_ind.add(fct.get_id())
            dedup.append(fct)
        flat = dedup
        coef, dep = [], []
        for fct in flat:
            if z3.is_app(fct) and fct.decl().kind() == z3.Z3_OP_UMINUS:
                coef.append(z3.RealVal(-1))
                fct = fct.arg(0)
            (dep if _depends(fct, k) else coef).append(fct)
        c = z3.RealVal(1)
        for x in coef:
            c = c * x
        d = None
        for x in dep:
            d = x if d is None else d * x
        out.append((z3.simplify(c), d))
    return out


def sum_expand(body, k, n, depth=0):
    """sum_{k<n} body as a linear combination of *atomic* sums (sums of products of k-dependent factors):
       - Kronecker deltas  If(k == c, a, b)  are eliminated: sum_k C[If(k==c,a,b)] = sum_k C[b] + (C[a]-C[b])(c)
         for 0 <= c < n;
       - the body is put in polynomial normal form and linearity of finite sums is applied:
         sum_k (a f(k) + b g(k)) = a sum_k f(k) + b sum_k g(k),  sum_k c = n c.
    Both rules are the trusted ones; the polynomial identity body = sum_m coef_m atom_m is re-checked by
    pyvc.selftest (SIGMA_EXPANSIONS)."""
    nz = dim_z3(n)
    nz_s = z3.simplify(nz)
    if z3.is_int_value(nz_s) and 0 <= nz_s.as_long() <= 6:
        # a sum of concretely few terms is written out
        tot = z3.RealVal(0)
        for j in range(nz_s.as_long()):
            tot = tot + z3.substitute(body, (k, z3.IntVal(j)))
        return z3.simplify(tot)
    kron = _find_kronecker(body, k) if depth < 6 else None
    if kron is not None:
        ite, c = kron
        a, b = ite.arg(1), ite.arg(2)
        body_b = z3.substitute(body, (ite, b))
        body_a = z3.substitute(body, (ite, a))
        at_c = z3.substitute(body_a - body_b, (k, c))
        return sum_expand(body_b, k, n, depth + 1) + z3.If(z3.And(0 <= c, c < nz), at_c, z3.RealVal(0))
    split = _find_kfree_ite(body, k) if depth < 8 else None
    if split is not None:
        # sum_k C[If(cond, a, b)] = If(cond, sum_k C[a], sum_k C[b])   when cond does not depend on k
        ite = split
        sa = sum_expand(z3.substitute(body, (ite, ite.arg(1))), k, n, depth + 1)
        sb = sum_expand(z3.substitute(body, (ite, ite.arg(2))), k, n, depth + 1)
        return z3.If(ite.arg(0), sa, sb)
    monos = _monomials(body, k)
    total = None
    recon = None
    for coef, dep in monos:
        if dep is None:
            term = coef * z3.ToReal(z3.If(nz >= 0, nz, z3.IntVal(0)))
            rk = coef
        else:
            term = coef * atomic_sigma(dep, k, n)
            rk = coef * dep
        total = term if total is None else total + term
        recon = rk if recon is None else recon + rk
    if len(SIGMA_EXPANSIONS) < 400:
        SIGMA_EXPANSIONS.append((body, k, recon))
    return total if total is not None else z3.RealVal(0)


def sigma_term(cx, body_fn, n, sort=R):
    """sum_{k=0}^{n-1} body(k).  Real-valued sums are normalised into linear combinations of lambda-lifted atomic
    sums (see sum_expand), so that code and specification meet in the same normal form and the solver only has
    to do polynomial arithmetic over the atomic sums; integer (counting) sums stay atomic."""
    k = z3.Int(f"Σk!{next(_counter)}")
    body = body_fn(k)
    if sort != R or num.is_fp(body):
        if num.is_fp(body):
            raise OutOfSubset("sum of IEEE values (no floating-point model of reductions)")
        return atomic_sigma(body, k, n, sort)
    return sum_expand(body, k, n)


def sigma_body(name, args, k):
    """instantiate the body of the sum denoted by application name(args) at position k"""
    ent = SIGMA_DEFS[name]
    params = list(args[:-1])
    return z3.substitute_vars(ent["template"], k, *params)


def reduce_sum(it, t: STensor, dim=None, keepdim=False):
    dims = _norm_dims(t, dim)
    if not dims:
        return t if t.dtype != "bool" else STensor(t.shape_, lambda i: z3.If(t.fn(i), z3.IntVal(1), z3.IntVal(0)), "int")
    cx = it.cx
    out_shape = tuple((1 if k in dims else d) for k, d in enumerate(t.shape_)) if keepdim else \
        tuple(d for k, d in enumerate(t.shape_) if k not in dims)
    # counts (sums of booleans) are represented as real-valued sums of 0/1 indicators, in the same normal form as
    # every other sum (torch returns an int64 tensor; its value is what matters here and `.float()` is the identity)
    as_int = t.dtype == "int"

    def elem(idx_full):
        if t.dtype == "bool":
            return z3.If(t.fn(idx_full), z3.RealVal(1), z3.RealVal(0))
        return t.fn(idx_full)

    def fn(out_idx):
        # nested sums, innermost = last reduced dim
        def build(pos, partial):
            if pos == len(dims):
                full = []
                oi = iter(out_idx)
                for k in range(t.ndim):
                    if k in dims:
                        full.append(partial[k])
                        if keepdim:
                            next(oi)
                    else:
                        full.append(next(oi))
                return elem(tuple(full))
            dsrc = dims[pos]
            return sigma_term(cx, lambda kk: build(pos + 1, {**partial, dsrc: kk}), t.shape_[dsrc], I if as_int else R)
        return build(0, {})
    return STensor(out_shape, fn, "int" if as_int else "real")


def reduce_quant(it, t: STensor, dim, is_all, keepdim=False):
    if t.dtype != "bool":
        t = STensor(t.shape_, lambda i: t.elem_real(i) != 0, "bool")
    dims = _norm_dims(t, dim)
    out_shape = tuple(d for k, d in enumerate(t.shape_) if k not in dims)
    cx = it.cx
    if not dims:
        return STensor(t.shape_, t.fn, "bool")      # nothing to reduce (0-d tensor)

    def fn(out_idx):
        ks = {d: z3.Int(cx.fresh_name("q")) for d in dims}
        full = []
        oi = iter(out_idx)
        for k in range(t.ndim):
            full.append(ks[k] if k in dims else next(oi))
        rng = z3.And(*[z3.And(0 <= ks[d], ks[d] < dim_z3(t.shape_[d])) for d in dims])
        body = t.fn(tuple(full))
        if is_all:
            return z3.ForAll(list(ks.values()), z3.Implies(rng, body))
        return z3.Exists(list(ks.values()), z3.And(rng, body))
    return STensor(out_shape, fn, "bool")


def numel_real(t, dims):
    e = z3.RealVal(1)
    for d in dims:
        e = e * z3.ToReal(dim_z3(t.shape_[d]))
    return e


def matmul(it, a, b, node=None):
    if a.ndim == 2 and b.ndim == 2:
        n = a.shape_[1]
        return STensor((a.shape_[0], b.shape_[1]),
                       lambda idx: sigma_term(it.cx, lambda k: a.elem_real((idx[0], k)) * b.elem_real((k, idx[1])), n), "real")
    if a.ndim == 2 and b.ndim == 1:
        n = a.shape_[1]
        return STensor((a.shape_[0],), lambda idx: sigma_term(it.cx, lambda k: a.elem_real((idx[0], k)) * b.elem_real((k,)), n), "real")
    if a.ndim == 1 and b.ndim == 2:
        n = a.shape_[0]
        return STensor((b.shape_[1],), lambda idx: sigma_term(it.cx, lambda k: a.elem_real((k,)) * b.elem_real((k, idx[0])), n), "real")
    if a.ndim == 1 and b.ndim == 1:
        n = a.shape_[0]
        return STensor((), lambda idx: sigma_term(it.cx, lambda k: a.elem_real((k,)) * b.elem_real((k,)), n), "real")
    raise OutOfSubset("matmul of these ranks", node)


# ----------------------------------------------------------------------------------------------------
# tensor methods

TENSOR_METHODS = {}


def tmethod(*names):
    def deco(fn):
        for n in names:
            TENSOR_METHODS[n] = fn
        return fn
    return deco


@tmethod("sum")
def t_sum(it, t, dim=None, keepdim=False, **kw):
    if isinstance(dim, list):
        dim = tuple(dim)
    return reduce_sum(it, t, dim, keepdim)


@tmethod("mean")
def t_mean(it, t, dim=None, keepdim=False, **kw):
    dims = _norm_dims(t, dim)
    s = reduce_sum(it, t.as_num(), dim, keepdim)
    n = numel_real(t, dims)
    return STensor(s.shape_, lambda idx: s.fn(idx) / n, "real")


@tmethod("any")
def t_any(it, t, dim=None, **kw):
    return reduce_quant(it, t, dim, False)


@tmethod("all")
def t_all(it, t, dim=None, **kw):
    return reduce_quant(it, t, dim, True)


@tmethod("double", "clone", "numpy")
def t_float(it, t, *a, **k):
    if t.dtype == "real":
        return STensor(t.shape_, t.fn, "real")
    return STensor(t.shape_, t.elem_real, "real")


def _alias(t):
    r = STensor(t.shape_, t.fn, t.dtype, t.name)
    r._view = (t, lambda b: z3.BoolVal(True), lambda b: tuple(b))
    t._register_view(r, lambda idx: tuple(idx))
    return r


@tmethod("detach", "cpu", "contiguous")
def t_detach(it, t, *a, **k):
    """same storage as t (an in-place update of the result is an update of t)"""
    return _alias(t)


@tmethod("float")
def t_float32(it, t, *a, **k):
    """a float32 tensor is returned as it is (same storage); another element type is converted (new storage)"""
    if t.dtype == "real":
        return _alias(t)
    return STensor(t.shape_, t.elem_real, "real")


@tmethod("to")
def t_to(it, t, *a, **k):
    dt = a[0] if a else k.get("dtype")
    if dt is torch.bool:
        if t.dtype == "bool":
            return STensor(t.shape_, t.fn, "bool")
        return STensor(t.shape_, lambda idx: t.elem_real(idx) != 0, "bool")
    if dt in (torch.float32, torch.float64, torch.float, torch.double):
        return t_float(it, t)
    if dt is None or isinstance(dt, (torch.device, str)):
        return t
    raise OutOfSubset(f"Tensor.to({dt})")


@tmethod("abs")
def t_abs(it, t):
    return t._abs(it)


@tmethod("item")
def t_item(it, t):
    if t.ndim == 0 or all(d == 1 for d in t.shape_ if isinstance(d, int)):
        e = t.fn(tuple(z3.IntVal(0) for _ in t.shape_))
        return SV(e)
    ops.raise_(RuntimeError, "a Tensor with more than 1 element cannot be converted to Scalar")


@tmethod("dim")
def t_dim(it, t):
    return t.ndim


@tmethod("is_floating_point")
def t_is_floating_point(it, t):
    return t.dtype == "real"


@tmethod("numel", "nelement")
def t_numel(it, t):
    n = 1
    sym = None
    for d in t.shape_:
        if isinstance(d, int):
            n *= d
        else:
            sym = d if sym is None else sym * d
    if sym is None:
        return n
    return SV(z3.simplify(sym * n if n != 1 else sym), "int")


@tmethod("size")
def t_size(it, t, d=None):
    sh = t._getattr(it, "shape")
    return sh if d is None else sh[d]


@tmethod("unsqueeze")
def t_unsqueeze(it, t, d):
    if d < 0:
        d = t.ndim + 1 + d
    shape = t.shape_[:d] + (1,) + t.shape_[d:]
    return STensor(shape, lambda idx: t.fn(idx[:d] + idx[d + 1:]), t.dtype)


@tmethod("squeeze")
def t_squeeze(it, t, dim=None):
    if dim is None:
        keep = [k for k, d in enumerate(t.shape_) if not (isinstance(d, int) and d == 1)]
    else:
        dd = dim % t.ndim if t.ndim else 0
        keep = [k for k in range(t.ndim) if not (k == dd and isinstance(t.shape_[k], int) and t.shape_[k] == 1)]
    shape = tuple(t.shape_[k] for k in keep)

    def fn(idx):
        full = [z3.IntVal(0)] * t.ndim
        for k, i in zip(keep, idx):
            full[k] = i
        return t.fn(tuple(full))
    return STensor(shape, fn, t.dtype)


def _shape_arg(args):
    if len(args) == 1 and isinstance(args[0], (tuple, list, torch.Size)):
        return tuple(args[0])
    return tuple(args)


@tmethod("view", "reshape")
def t_view(it, t, *shape, **kw):
    if "shape" in kw and not shape:
        shape = (kw["shape"],)
    shape = _shape_arg(shape)
    shape = tuple(s.e if isinstance(s, SV) else s for s in shape)
    if any(isinstance(d, int) and d == -1 for d in shape):
        # infer the free dimension: only when the other requested dims are 1 and the tensor has one non-1 dim
        big = [d for d in t.shape_ if not (isinstance(d, int) and d == 1)]
        others = [d for d in shape if not (isinstance(d, int) and d in (-1, 1))]
        if len(big) <= 1 and not others:
            shape = tuple((big[0] if big else 1) if (isinstance(d, int) and d == -1) else d for d in shape)
        else:
            raise OutOfSubset(f"view/reshape {t.shape_} -> {shape} with an inferred dimension")
    # supported: adding / removing size-1 dimensions while keeping the order of the others
    src = [(k, d) for k, d in enumerate(t.shape_) if not (isinstance(d, int) and d == 1)]
    dst = [(k, d) for k, d in enumerate(shape) if not (isinstance(d, int) and d == 1)]
    if len(src) != len(dst) or any(dim_eq(a[1], b[1]) is not True for a, b in zip(src, dst)):
        raise OutOfSubset(f"view/reshape {t.shape_} -> {shape} (only size-1 dimensions may be added or removed)")

    def fn(idx):
        full = [z3.IntVal(0)] * t.ndim
        for (ks, _), (kd, _) in zip(src, dst):
            full[ks] = idx[kd]
        return t.fn(tuple(full))
    return STensor(shape, fn, t.dtype)


@tmethod("expand")
def t_expand(it, t, *shape):
    shape = _shape_arg(shape)
    shape = tuple(s.e if isinstance(s, SV) else s for s in shape)
    n = len(shape)
    if n < t.ndim:
        ops.raise_(RuntimeError, "expand: fewer dims than tensor")
    pad = (1,) * (n - t.ndim) + t.shape_
    out = []
    for want, have in zip(shape, pad):
        if isinstance(want, int) and want == -1:
            out.append(have)
        elif isinstance(have, int) and have == 1:
            out.append(want)
        else:
            if dim_eq(want, have) is not True:
                if dim_eq(want, have) is False or not it.cx.branch(dim_z3(want) == dim_z3(have)):
                    ops.raise_(RuntimeError, "expand: incompatible sizes")
            out.append(have)
    return STensor(tuple(out), lambda idx: t.fn(_op_idx(idx, t.shape_, pad)), t.dtype)


@tmethod("masked_fill")
def t_masked_fill(it, t, mask, value):
    mask = as_tensor(it, mask)
    shape, pa, pb = broadcast_shapes(it, t.shape_, mask.shape_)
    v = as_tensor(it, value)
    if v.ndim != 0:
        raise OutOfSubset("masked_fill with non-scalar value")
    if t.dtype == "real":
        ve = v.elem_real(())
        return STensor(shape, lambda idx: num.ite(mask.fn(_op_idx(idx, mask.shape_, pb)), ve, t.fn(_op_idx(idx, t.shape_, pa))), "real")
    if t.dtype == "int":
        vz = z3.simplify(v.fn(()))
        if v.dtype == "int":
            return STensor(shape, lambda idx: z3.If(mask.fn(_op_idx(idx, mask.shape_, pb)), v.fn(()), t.fn(_op_idx(idx, t.shape_, pa))), "int")
        return STensor(shape, lambda idx: z3.If(mask.fn(_op_idx(idx, mask.shape_, pb)), v.elem_real(()), t.elem_real(_op_idx(idx, t.shape_, pa))), "real")
    return STensor(shape, lambda idx: z3.If(mask.fn(_op_idx(idx, mask.shape_, pb)), v.fn(()), t.fn(_op_idx(idx, t.shape_, pa))), t.dtype)


@tmethod("exp")
def t_exp(it, t):
    return unary(t.as_num(), lambda e: F_EXP(e), "real")


@tmethod("log")
def t_log(it, t):
    return unary(t.as_num(), lambda e: F_LOG(e), "real")


@tmethod("sqrt")
def t_sqrt(it, t):
    return unary(t.as_num(), lambda e: F_SQRT(e), "real")


@tmethod("square")
def t_square(it, t):
    return unary(t.as_num(), lambda e: e * e, "real")


@tmethod("sigmoid")
def t_sigmoid(it, t):
    return unary(t.as_num(), lambda e: F_SIGMOID(e), "real")


@tmethod("clamp")
def t_clamp(it, t, min=None, max=None):
    def f(e):
        if min is not None:
            lo = to_z3(min, "real")
            e = z3.If(e < lo, lo, e)
        if max is not None:
            hi = to_z3(max, "real")
            e = z3.If(e > hi, hi, e)
        return e
    return unary(t.as_num(), f, "real")


@tmethod("clamp_")
def t_clamp_inplace(it, t, min=None, max=None):
    """in-place clamp; the bounds may be numbers or 0-d tensors"""
    def bound(b):
        if b is None:
            return None
        if isinstance(b, STensor):
            if b.ndim != 0:
                raise OutOfSubset("clamp_ with a non-scalar tensor bound")
            return SV(b.elem_real(()), "real")
        return b
    new = t_clamp(it, STensor(t.shape_, t.fn, t.dtype), min=bound(min), max=bound(max))
    t._write(it, new.fn)
    return t


F_MEDIAN_COUNTER = itertools.count()


@tmethod("median")
def t_median(it, t, dim=None, **kw):
    """torch.median without dim: one of the entries, an order statistic (a fresh value constrained to be an entry that at least
    one entry is <= and at least one entry is >=)"""
    if dim is not None:
        raise OutOfSubset("median along a dimension")
    cx = it.cx
    mval = z3.Real(cx.fresh_name("median"))
    idx = t.fresh_idx(cx, "md")
    if idx:
        cx.assume(z3.Exists(list(idx), z3.And(t.in_range(idx), t.elem_real(idx) == mval)))
    else:
        cx.assume(mval == t.elem_real(()))
    return STensor((), lambda i_: mval, "real")


@tmethod("tolist")
def t_tolist(it, t):
    """nested python lists of the elements (python floats / ints / bools); every dimension must be a known number"""
    if not all(isinstance(d, int) for d in t.shape_):
        raise OutOfSubset("Tensor.tolist() of a tensor with a symbolic dimension")
    kind = {"real": "real", "int": "int", "bool": "bool"}[t.dtype]

    def build(prefix, dims):
        if not dims:
            return SV(z3.simplify(t.fn(tuple(z3.IntVal(i) for i in prefix))), kind)
        return [build(prefix + (i,), dims[1:]) for i in range(dims[0])]
    return build((), t.shape_)


@tmethod("index_put")
def t_index_put(it, t, indices, values, accumulate=False):
    return index_put(it, t, indices, values, accumulate)


def index_put(it, t, indices, values, accumulate=False):
    """out-of-place index_put with scalar (0-d) index tensors: the block t[i0, i1, ...] <- values"""
    idxs = []
    for ix in indices:
        ixt = as_tensor(it, ix)
        if ixt is None or ixt.ndim != 0:
            raise OutOfSubset("index_put with non-scalar index tensors")
        idxs.append(ixt.fn(()) if ixt.dtype == "int" else z3.ToInt(ixt.elem_real(())))
    nfix = len(idxs)
    if nfix > t.ndim:
        ops.raise_(IndexError, "too many indices for tensor")
    v = as_tensor(it, values)
    sub_shape = t.shape_[nfix:]
    _, pa, pb = broadcast_shapes(it, sub_shape, v.shape_)
    for iz, d in zip(idxs, t.shape_):
        if it.cx.branch(z3.Or(iz >= dim_z3(d), iz < -dim_z3(d))):
            ops.raise_(IndexError, "index out of range in index_put")
    idxs = [z3.If(iz >= 0, iz, iz + dim_z3(d)) for iz, d in zip(idxs, t.shape_)]

    def fn(i):
        sel = z3.And(*[i[k] == idxs[k] for k in range(nfix)]) if nfix else z3.BoolVal(True)
        val = v.elem_real(_op_idx(i[nfix:], v.shape_, pb))
        cur = t.elem_real(i)
        return z3.If(sel, (cur + val) if accumulate else val, cur)
    return STensor(t.shape_, fn, "real")


# ----------------------------------------------------------------------------------------------------
# torch.* functions


def _sv_shape(shape):
    out = []
    for s in shape:
        if isinstance(s, SV):
            out.append(s.e)
        elif isinstance(s, STensor) and s.ndim == 0:
            out.append(s.fn(()))
        else:
            out.append(int(s))
    return tuple(out)


def _full(shape_args, value, dtype):
    shape = _sv_shape(_shape_arg(shape_args))
    return STensor.const(shape, value, dtype)


@model(torch.broadcast_tensors)
def m_broadcast_tensors(it, *tensors):
    ts = [as_tensor(it, t) for t in tensors]
    if not ts:
        return ()
    shape = ts[0].shape_
    for t in ts[1:]:
        shape, _, _ = broadcast_shapes(it, shape, t.shape_)
    out = []
    for t in ts:
        _, pa, _ = broadcast_shapes(it, t.shape_, shape)
        out.append(STensor(shape, (lambda idx, t=t, pa=pa: t.fn(_op_idx(idx, t.shape_, pa))), t.dtype))
    return tuple(out)


@model(torch.arange)
def m_arange(it, *args, **kw):
    if len(args) != 1:
        raise OutOfSubset("torch.arange with start / step")
    n = args[0]
    n = n.e if isinstance(n, SV) else n
    return STensor((n,), lambda idx: idx[0], "int")


def _argext(it, t, dim, keepdim, is_min):
    """argmin / argmax along one dimension: an uninterpreted index function constrained by the library's contract
    (index of the first extremal entry; NaN-free real entries).  An empty dimension raises."""
    t = as_tensor(it, t)
    if dim is None and t.ndim == 1:
        dim = 0            # the flattened tensor is the tensor itself
    if dim is None or keepdim:
        raise OutOfSubset("argmin/argmax without dim or with keepdim")
    dim = dim % t.ndim
    cx = it.cx
    J = dim_z3(t.shape_[dim])
    if cx.branch(J <= 0):
        ops.raise_(IndexError, "argmin(): Expected reduction dim to have non-zero size")
    rest = tuple(d for k, d in enumerate(t.shape_) if k != dim)
    F = z3.Function(cx.fresh_name("argext"), *([z3.IntSort()] * len(rest)), z3.IntSort()) if rest else None
    c0 = z3.Int(cx.fresh_name("argext")) if not rest else None

    def val(idx):
        return F(*idx) if rest else c0

    def full(idx, j):
        return tuple(list(idx[:dim]) + [j] + list(idx[dim:]))
    ivs = [z3.Int(cx.fresh_name("ai")) for _ in rest]
    j = z3.Int(cx.fresh_name("aj"))
    dom = z3.And(*[z3.And(0 <= i, i < dim_z3(d)) for i, d in zip(ivs, rest)]) if rest else z3.BoolVal(True)
    best = t.elem_real(full(ivs, val(ivs)))
    other = t.elem_real(full(ivs, j))
    cmp_all = (best <= other) if is_min else (best >= other)
    cmp_first = (other > best) if is_min else (other < best)
    body = z3.And(0 <= val(ivs), val(ivs) < J,
                  z3.ForAll([j], z3.Implies(z3.And(0 <= j, j < J), cmp_all)),
                  z3.ForAll([j], z3.Implies(z3.And(0 <= j, j < val(ivs)), cmp_first)))
    cx.assume(z3.ForAll(ivs, z3.Implies(dom, body)) if ivs else body)
    return STensor(rest, lambda idx: val(list(idx)), "int")


@model(torch.argmin)
def m_argmin(it, t, dim=None, keepdim=False):
    return _argext(it, t, dim, keepdim, True)


@model(torch.argmax)
def m_argmax(it, t, dim=None, keepdim=False):
    return _argext(it, t, dim, keepdim, False)


@tmethod("argmin")
def t_argmin(it, t, dim=None, keepdim=False):
    return _argext(it, t, dim, keepdim, True)


@tmethod("argmax")
def t_argmax(it, t, dim=None, keepdim=False):
    return _argext(it, t, dim, keepdim, False)


@model(torch.zeros)
def m_zeros(it, *shape, dtype=None, **kw):
    if dtype is torch.bool:
        return _full(shape, False, "bool")
    return _full(shape, 0.0, "real")


@model(torch.ones)
def m_ones(it, *shape, dtype=None, **kw):
    if dtype is torch.bool:
        return _full(shape, True, "bool")
    return _full(shape, 1.0, "real")


@model(torch.zeros_like)
def m_zeros_like(it, t, dtype=None, **kw):
    t = as_tensor(it, t)
    if dtype is torch.bool or (dtype is None and t.dtype == "bool"):
        return STensor.const(t.shape_, False, "bool")
    return STensor.const(t.shape_, 0.0, "real")


@model(torch.ones_like)
def m_ones_like(it, t, dtype=None, **kw):
    t = as_tensor(it, t)
    if dtype is torch.bool or (dtype is None and t.dtype == "bool"):
        return STensor.const(t.shape_, True, "bool")
    return STensor.const(t.shape_, 1.0, "real")


@model(torch.tensor)
def m_tensor(it, data, dtype=None, **kw):
    if isinstance(data, STensor):
        return STensor(data.shape_, data.fn, data.dtype)
    from .coll import SSeq, ListCodec
    if isinstance(data, SSeq):
        # a list of unknown length: numbers -> 1-D, equally long lists of numbers -> 2-D
        n = data.length
        if isinstance(data.ec, ListCodec):
            return STensor((n, data.ec.inner_len), lambda idx: z3.Select(data.at(idx[0]), idx[1]), "real")
        if data.ec.sort == z3.RealSort():
            return STensor((n,), lambda idx: data.at(idx[0]), "real")
        if data.ec.sort == z3.IntSort():
            t1 = STensor((n,), lambda idx: data.at(idx[0]), "int")
            return t_float(it, t1) if dtype in (torch.float32, torch.float64, torch.float, torch.double) else t1
        raise OutOfSubset(f"torch.tensor of a list of {data.ec.name}")
    t = as_tensor(it, data)
    if t is not None:
        if dtype in (torch.float32, torch.float64, torch.float, torch.double):
            return t_float(it, t)
        return t
    if isinstance(data, (list, tuple)):
        if len(data) == 0:
            return STensor.const((0,), 0.0, "real")
        elems = [m_tensor(it, x) for x in data]
        return m_stack(it, elems)
    raise OutOfSubset(f"torch.tensor of {type(data).__name__}")


@model(torch.stack)
def m_stack(it, tensors, dim=0):
    ts = [as_tensor(it, t) for t in ops.native_iter(it, tensors)]
    if not ts:
        ops.raise_(RuntimeError, "stack expects a non-empty TensorList")
    n = len(ts)
    sh = ts[0].shape_
    if not isinstance(dim, int):
        raise OutOfSubset("stack along a symbolic dimension")
    pos = dim if dim >= 0 else dim + len(sh) + 1
    if not (0 <= pos <= len(sh)):
        ops.raise_(IndexError, "Dimension out of range in stack")
    anyreal = any(t.dtype == "real" for t in ts)

    def fn(idx):
        sub = tuple(idx[:pos]) + tuple(idx[pos + 1:])
        e = ts[-1].elem_real(sub) if anyreal else ts[-1].fn(sub)
        for k in range(n - 2, -1, -1):
            ek = ts[k].elem_real(sub) if anyreal else ts[k].fn(sub)
            e = z3.If(idx[pos] == k, ek, e)
        return e
    return STensor(tuple(sh[:pos]) + (n,) + tuple(sh[pos:]), fn, "real" if anyreal else ts[0].dtype)


@model(torch.cat, torch.concat)
def m_cat(it, tensors, dim=0, axis=None):
    if axis is not None:
        dim = axis
    ts = [as_tensor(it, t) for t in ops.native_iter(it, tensors)]
    nd = ts[0].ndim
    dim = dim % nd
    offs = []
    acc = z3.IntVal(0)
    for t in ts:
        offs.append(acc)
        acc = acc + dim_z3(t.shape_[dim])
    total_d = simplify_dim(it.cx, acc)
    anyreal = any(t.dtype == "real" for t in ts)

    def fn(idx):
        e = None
        for t, o in reversed(list(zip(ts, offs))):
            sub = tuple(idx[:dim]) + (idx[dim] - o,) + tuple(idx[dim + 1:])
            ek = t.elem_real(sub) if anyreal else t.fn(sub)
            e = ek if e is None else z3.If(idx[dim] < o + dim_z3(t.shape_[dim]), ek, e)
        return e
    shape = tuple(ts[0].shape_[:dim]) + (total_d,) + tuple(ts[0].shape_[dim + 1:])
    return STensor(shape, fn, "real" if anyreal else ts[0].dtype)


@model(torch.t)
def m_t(it, t):
    return transpose(as_tensor(it, t))


@model(torch.sign)
def m_sign(it, t):
    t = as_tensor(it, t)
    return unary(t.as_num(), lambda e: z3.If(e > 0, z3.RealVal(1), z3.If(e < 0, z3.RealVal(-1), z3.RealVal(0))), "real")


@model(torch.norm)
def m_norm(it, t, p=2, dim=None, **kw):
    t = as_tensor(it, t)
    if p not in (2, "fro") or dim is not None:
        raise OutOfSubset("torch.norm other than the Euclidean norm of the whole tensor")
    sq = STensor(t.shape_, lambda idx: t.elem_real(idx) * t.elem_real(idx), "real")
    ssum = reduce_sum(it, sq, None)
    return STensor((), lambda idx: F_SQRT(ssum.fn(())), "real")


@model(torch.eye)
def m_eye(it, n, m=None, **kw):
    d = _sv_shape((n,))[0]
    d2 = _sv_shape((m,))[0] if m is not None else d
    return STensor((d, d2), lambda idx: z3.If(idx[0] == idx[1], z3.RealVal(1), z3.RealVal(0)), "real")


@model(torch.std)
def m_std(it, t, dim=None, unbiased=True, correction=None, keepdim=False, **kw):
    """torch.std: sqrt( sum (x - mean)^2 / (N - correction) ), correction = 1 unless unbiased=False"""
    t = as_tensor(it, t).as_num()
    dims = _norm_dims(t, dim)
    corr = (1 if unbiased else 0) if correction is None else correction
    mean = t_mean(it, t, dim, keepdim=True)
    dev = tensor_binop(it, "sub", t, mean)
    sq = STensor(dev.shape_, lambda idx: dev.fn(idx) * dev.fn(idx), "real")
    ssum = reduce_sum(it, sq, dim, keepdim)
    N = numel_real(t, dims)
    return STensor(ssum.shape_, lambda idx: F_SQRT(ssum.fn(idx) / (N - corr)), "real")


TENSOR_METHODS["std"] = m_std


@model(torch.mean)
def m_mean(it, t, dim=None, **kw):
    return t_mean(it, as_tensor(it, t), dim, **kw)


def _elementwise(name):
    def f(it, t, *a, **k):
        tt = as_tensor(it, t)
        if tt is None:
            raise OutOfSubset(f"torch.{name} of {type(t).__name__}")
        return TENSOR_METHODS[name](it, tt, *a, **k)
    return f


for _n in ("exp", "log", "sqrt", "square", "sigmoid", "abs", "clamp", "sum", "any", "all", "squeeze", "unsqueeze"):
    model(getattr(torch, _n))(_elementwise(_n))
for _n in ("view", "expand", "to", "cpu", "sum", "mean"):
    model(getattr(torch.Tensor, _n))(_elementwise(_n))


def softmax_along(it, t, dim):
    """softmax along one dimension of concrete size: exp(x_k) / sum_k' exp(x_k') with exp uninterpreted (the documented
    definition; the max-subtraction torch performs for stability is not modelled)"""
    t = as_tensor(it, t).as_num()
    dim = dim % t.ndim
    K = t.shape_[dim]
    if not isinstance(K, int):
        raise OutOfSubset("softmax along a dimension of symbolic size")

    def fn(idx):
        def at(k):
            return F_EXP(t.fn(tuple(idx[:dim]) + (z3.IntVal(k),) + tuple(idx[dim + 1:])))
        den = sum((at(k) for k in range(K)), z3.RealVal(0))
        num = at(K - 1)
        for k in reversed(range(K - 1)):
            num = z3.If(idx[dim] == k, at(k), num)
        return num / den
    return STensor(t.shape_, fn, "real")


@model(torch.nn.Softmax)
def m_softmax_module(it, dim=None):
    if dim is None:
        raise OutOfSubset("Softmax without dim")
    return SymCallable(lambda it_, x: softmax_along(it_, x, dim), f"Softmax(dim={dim})")


@model(torch.softmax, torch.nn.functional.softmax)
def m_softmax(it, t, dim=None, **kw):
    return softmax_along(it, t, dim)


# torch.distributions.Bernoulli(probs).log_prob(x): the library's log-density, an uninterpreted function of (x, p) applied entry-wise
# with broadcasting (its closed form x log p + (1 - x) log(1 - p) with clamped p is the library's business: C08 stand-in)
F_BERN_LOGP = ufun("bernoulli_log_prob", R, R, R)


class SBernoulli(Symbolic):
    def __init__(self, probs):
        self.probs = probs

    def _getattr(self, it, name, node=None):
        if name == "log_prob":
            def log_prob(it_, x):
                xt, pt = as_tensor(it_, x).as_num(), self.probs.as_num()
                shape, pa, pb = broadcast_shapes(it_, xt.shape_, pt.shape_, node)
                return STensor(shape, lambda idx: F_BERN_LOGP(xt.fn(_op_idx(idx, xt.shape_, pa)), pt.fn(_op_idx(idx, pt.shape_, pb))), "real")
            return SymCallable(log_prob, "Bernoulli.log_prob")
        if name in ("probs", "mean"):
            return self.probs
        raise OutOfSubset(f"Bernoulli.{name}", node)


@model(torch.distributions.Bernoulli)
def m_bernoulli(it, probs=None, logits=None, validate_args=None):
    if probs is None:
        raise OutOfSubset("Bernoulli(logits=...)")
    return SBernoulli(as_tensor(it, probs))


@model(torch.where)
def m_where(it, c, a, b):
    c = as_tensor(it, c)
    a, b = as_tensor(it, a), as_tensor(it, b)
    s1, pa, pb = broadcast_shapes(it, a.shape_, b.shape_)
    shape, pc, ps = broadcast_shapes(it, c.shape_, s1)
    _, pa2, _ = broadcast_shapes(it, a.shape_, shape)
    _, pb2, _ = broadcast_shapes(it, b.shape_, shape)
    real = "real" in (a.dtype, b.dtype)

    def fn(idx):
        ea = a.elem_real(_op_idx(idx, a.shape_, pa2)) if real else a.fn(_op_idx(idx, a.shape_, pa2))
        eb = b.elem_real(_op_idx(idx, b.shape_, pb2)) if real else b.fn(_op_idx(idx, b.shape_, pb2))
        return num.ite(c.fn(_op_idx(idx, c.shape_, pc)), ea, eb) if real else z3.If(c.fn(_op_idx(idx, c.shape_, pc)), ea, eb)
    return STensor(shape, fn, "real" if real else a.dtype)


@model(torch.equal)
def m_equal(it, a, b):
    a, b = as_tensor(it, a), as_tensor(it, b)
    if a.ndim != b.ndim:
        return False
    conds = []
    for da, db in zip(a.shape_, b.shape_):
        eq = dim_eq(da, db)
        if eq is False:
            return False
        if eq is None:
            conds.append(dim_z3(da) == dim_z3(db))
    idx = a.fresh_idx(it.cx, "eq")
    body = (a.fn(idx) == b.fn(idx)) if a.dtype == b.dtype else (a.elem_real(idx) == b.elem_real(idx))
    e = z3.ForAll(list(idx), z3.Implies(a.in_range(idx), body)) if idx else body
    return SV(z3.And(*conds, e) if conds else e, "bool")


@model(torch.isnan)
def m_isnan(it, t):
    t = as_tensor(it, t)
    # real mode: tensors hold real numbers, NaN is represented by the explicit predicate isnan(x)
    return unary(t.as_num(), lambda e: F_ISNAN(e), "bool")


F_ISFINITE = ufun("isfinite", R, B)


@model(torch.isfinite)
def m_isfinite(it, t):
    # real mode: finiteness of an entry is the explicit (uninterpreted) predicate isfinite(x), like isnan(x)
    t = as_tensor(it, t)
    return unary(t.as_num(), lambda e: F_ISFINITE(e), "bool")


@model(torch.isinf)
def m_isinf(it, t):
    t = as_tensor(it, t)
    return unary(t.as_num(), lambda e: z3.And(z3.Not(F_ISFINITE(e)), z3.Not(F_ISNAN(e))), "bool")


@model(torch.index_put)
def m_index_put(it, t, indices=None, values=None, accumulate=False):
    return index_put(it, as_tensor(it, t), indices, values, accumulate)


@model(torch.matmul)
def m_matmul(it, a, b):
    return matmul(it, as_tensor(it, a), as_tensor(it, b))


# random streams: ghost counter + uninterpreted draws
def _draw(it, kind, shape_args):
    cx = it.cx
    g = cx.ghost.setdefault("rng", {"torch": 0, "np": 0, "py": 0, "log": []})
    c = g["torch"]
    g["torch"] += 1
    shape = _sv_shape(_shape_arg(shape_args))
    g["log"].append(("torch", kind, shape))
    name = f"{kind}#{c}" + (f"@{cx.ghost.get('rng_tag')}" if cx.ghost.get("rng_tag") else "")
    return STensor.sym(cx, name, shape, "real")


@model(torch.rand)
def m_rand(it, *shape, **kw):
    t = _draw(it, "U", shape)
    idx = t.fresh_idx(it.cx, "u")
    body = z3.And(t.fn(idx) >= 0, t.fn(idx) < 1)
    it.cx.assume(z3.ForAll(list(idx), body) if idx else body)
    return t


@model(torch.randn)
def m_randn(it, *shape, **kw):
    return _draw(it, "Z", shape)


@model(torch.manual_seed)
def m_manual_seed(it, seed):
    g = it.cx.ghost.setdefault("seeded", {})
    g["torch"] = seed
    return None
