"""A solver call that does not come back.  Every z3 `Solver.check()` of the verifier carries a timeout, but z3 honours it
cooperatively and some of its loops (observed: the model-based quantifier instantiation's model checker on an obligation generated
from a changed tree) do not look at it; a Python signal handler cannot run while the interpreter waits inside the C call either.
ctypes releases the GIL during the call, so a daemon thread can watch the clock: a `check()` that has been running for more than
CAP seconds (well above every timeout the verifier sets: <= 120 s) is interrupted through `Context.interrupt()` (thread-safe in
z3) and then answers `unknown` -- undecided, never a verdict."""
import os
import threading
import time

import z3

CAP = float(os.environ.get("PYVC_SOLVER_CAP", "300"))
_active = {}
_state = {"pid": None}
_orig_check = z3.Solver.check


def _watch():
    while True:
        time.sleep(2.0)
        now = time.time()
        for key, (ctx, t0) in list(_active.items()):
            if now - t0 > CAP:
                try:
                    ctx.interrupt()
                except Exception:
                    pass


def _ensure_thread():
    pid = os.getpid()
    if _state["pid"] != pid:          # (threads do not survive the fork of the worker pool)
        _state["pid"] = pid
        _active.clear()
        threading.Thread(target=_watch, daemon=True, name="pyvc-solver-watchdog").start()


def _check(self, *assumptions):
    _ensure_thread()
    key = (threading.get_ident(), id(self))
    _active[key] = (self.ctx, time.time())
    try:
        return _orig_check(self, *assumptions)
    except z3.Z3Exception as e:
        if "cancel" in str(e).lower() or "interrupt" in str(e).lower():
            return z3.unknown
        raise
    finally:
        _active.pop(key, None)


if z3.Solver.check is not _check:
    z3.Solver.check = _check
