"""names used by contract files"""
import z3

from .core import SV, SymObj, ExcValue, CheckerError, OutOfSubset, to_z3
from .coll import SMap, SSeq, SSet, Codec, INT, REAL, STR, BOOL
from .engine import Spec, Outcome, loc_field, loc_obj, resolve
from .loops import LoopSpec


def z(v, want=None):
    return to_z3(v, want)


def as_bool(v):
    if isinstance(v, SV):
        if v.kind == "bool":
            return v.e
        return v.e != 0
    return z3.BoolVal(bool(v))


def foreign(spec, module):
    """a unit borrowed from another property's contract module: verified with THAT module's callee contracts and engine hooks
    (pyvc.runner.engine_for), reported under the borrowing property"""
    spec.context = module
    return spec
