"""pyvc.driver -- run the contracts of one property, discharge, replay, write evidence."""
from __future__ import annotations

import argparse
import hashlib
import importlib
import json
import os
import sys
import time
import traceback

import z3

ROOT = os.path.dirname(os.path.dirname(os.path.abspath(__file__)))
REPO = os.environ.get("VERIF_REPO", "/repo")

EXIT_OK, EXIT_VIOLATION, EXIT_UNDECIDED, EXIT_CHECKER = 0, 1, 2, 3


def _import_repo():
    from . import tensor, npmodels  # noqa: F401 (register the torch / numpy models)
    src = os.path.join(REPO, "src")
    if src not in sys.path:
        sys.path.insert(0, src)
    import leaspy.models  # noqa: F401  (must precede leaspy.variables / leaspy.algo imports)
    import leaspy
    if not os.path.realpath(leaspy.__file__).startswith(os.path.realpath(src)):
        raise RuntimeError(f"leaspy imported from {leaspy.__file__}, expected under {src}")


def load_known_findings():
    path = os.path.join(ROOT, "known_findings.txt")
    found = []
    if os.path.exists(path):
        for line in open(path):
            line = line.strip()
            if line.startswith("finding:"):
                kv = {}
                rest = line[len("finding:"):].strip()
                # finding: property=C19 obligation=<...> :: what fails
                head, _, what = rest.partition("::")
                for tok in head.split():
                    if "=" in tok:
                        k, _, v = tok.partition("=")
                        kv[k] = v
                kv["what"] = what.strip()
                found.append(kv)
    return found


def run_deductive(prop, tier, seed, log):
    """returns dict with obligations, results, diagnostics"""
    from .engine import Engine
    from .core import CheckerError
    from . import smt, models
    mod = importlib.import_module(f"contracts.{prop.lower()}")
    eng = Engine()
    hook = getattr(mod, "engine_setup", None)
    if hook:
        hook(eng)
    for s in getattr(mod, "CALLEES", []):
        eng.register(s)
    units = list(getattr(mod, "UNITS", []))
    for s in units:
        eng.register(s)
    all_obs, unit_info = [], []
    t0 = time.time()
    for s in units:
        tu = time.time()
        obs, diags = eng.verify(s)
        for ob in obs:
            ob.unit = s.target
        all_obs.extend(obs)
        oos = [o for d in diags for o in d["oos"]]
        unit_info.append({"target": s.target, "doc": (s.__doc__ or "").strip().split("\n")[0],
                          "configs": len(diags), "paths": sum(d["paths"] for d in diags),
                          "obligations": len(obs), "out_of_subset": oos,
                          "symex_s": round(time.time() - tu, 2)})
        log(f"  unit {s.target}: {len(obs)} obligations, {sum(d['paths'] for d in diags)} paths"
            + (f", OUT-OF-SUBSET: {oos[:2]}" if oos else ""))
    lem = getattr(mod, "LEMMAS", None)
    if lem is not None:
        from .core import Obligation
        n0 = len(all_obs)
        for name, hyps, goal in lem():
            ob = Obligation(name, hyps, goal)
            ob.unit = "lemma over contracts"
            all_obs.append(ob)
        # a lemma whose hypotheses are contradictory proves nothing: check them
        for ob in all_obs[n0:]:
            s_ = z3.Solver()
            s_.set("timeout", 5000)
            s_.add(*ob.hyps)
            if s_.check() == z3.unsat:
                raise CheckerError(f"vacuous lemma (contradictory hypotheses): {ob.name}")
        unit_info.append({"target": "lemmas over contracts", "obligations": len(all_obs) - n0, "paths": 0,
                          "configs": 0, "out_of_subset": [], "doc": (lem.__doc__ or "").strip().split("\n")[0]})
    t_symex = time.time() - t0
    timeout = 10000 if tier == "quick" else 120000
    axioms = getattr(mod, "extra_axioms", lambda: [])()
    t1 = time.time()
    results, texts = smt.discharge(all_obs, timeout_ms=timeout, both=(tier == "thorough"), extra_axioms=axioms)
    t_solve = time.time() - t1
    return dict(mod=mod, eng=eng, obligations=all_obs, results=results, texts=texts, units=unit_info,
                t_symex=t_symex, t_solve=t_solve, models_used=sorted(models.USED))


def main(argv=None):
    ap = argparse.ArgumentParser()
    ap.add_argument("prop")
    ap.add_argument("--tier", default=os.environ.get("VERIF_TIER", "quick"))
    ap.add_argument("--replay")
    ap.add_argument("-v", "--verbose", action="store_true")
    ap.add_argument("--update-ledger", action="store_true", help="record the unit source hashes of a green run")
    ap.add_argument("--selftest", action="store_true", help="CPython cross-check of the symbolic executor on every concretisable path")
    a = ap.parse_args(argv)
    seed = int(os.environ.get("VERIF_SEED", "0"))
    sys.path.insert(0, ROOT)
    from . import report
    try:
        _import_repo()
        if a.selftest:
            from . import selftest
            st = selftest.run(a.prop.upper())
            print(f"SELFTEST property={a.prop.upper()} paths={st['paths']} agree={st['agree']} disagree={len(st['disagree'])} "
                  f"skipped: abstract-inputs={st['skipped_abstract']} uninterpreted-functions={st['skipped_uninterpreted']} "
                  f"contract-calls={st['skipped_contract_calls']} no-model={st['no_model']}")
            for dsg in st["disagree"][:10]:
                print("  DISAGREE", dsg)
            return EXIT_CHECKER if st["disagree"] else 0
        return report.run_property(a.prop.upper(), a.tier, seed, a)
    except SystemExit:
        raise
    except Exception:
        traceback.print_exc()
        print(f"CHECKER-ERROR property={a.prop.upper()} {sys.exc_info()[1]!r}"[:400])
        return EXIT_CHECKER


if __name__ == "__main__":
    sys.exit(main())
