"""pyvc.npmodels -- the few numpy / bisect operations used on 1-D arrays by the functions under contract, modelled on
symbolic sequences (SSeq with pytype numpy.ndarray): np.array, np.concatenate, slicing, `in`, bisect."""
import bisect as _bisect

import numpy as np
import z3

from .core import SV, OutOfSubset, Symbolic
from .coll import SSeq, SZip, seq_concat, seq_from_list
from .models import model, MODELS
from . import ops
import builtins


@model(np.array)
def m_np_array(it, obj, *a, **k):
    from .tensor import STensor
    if isinstance(obj, STensor):
        return STensor(obj.shape_, obj.fn, obj.dtype, obj.name)
    if isinstance(obj, SSeq):
        return SSeq(it.cx, obj.ec, obj.name, obj.length, obj.arr, np.ndarray)
    if isinstance(obj, (list, tuple)) and any(isinstance(x, Symbolic) for x in obj):
        ec = it.engine.codec_for(obj[0])
        return seq_from_list(it.cx, ec, list(obj), pytype=np.ndarray, name="arr")
    if not any(isinstance(x, Symbolic) for x in (obj if isinstance(obj, (list, tuple)) else [obj])):
        return np.array(obj, *a, **k)
    raise OutOfSubset("np.array of this symbolic value")


@model(np.concatenate)
def m_np_concatenate(it, parts, *a, **k):
    parts = ops.native_iter(it, parts)
    acc = None
    for p in parts:
        acc = p if acc is None else seq_concat(it, acc, p)
    if isinstance(acc, SSeq):
        acc.pytype = np.ndarray
    return acc


@model(_bisect.bisect, _bisect.bisect_right)
def m_bisect(it, a, x, lo=0, hi=None):
    """bisect_right on a sorted array: the insertion point after any entry equal to x"""
    if not isinstance(a, SSeq):
        if isinstance(x, Symbolic):
            raise OutOfSubset("bisect of a symbolic value into a native list")
        return _bisect.bisect(a, x)
    cx = it.cx
    i = z3.Int(cx.fresh_name("bisect"))
    xx = a.ec.unwrap(x)
    p, q, j = z3.Ints(f"{cx.fresh_name('p')} {cx.fresh_name('q')} {cx.fresh_name('j')}")
    is_sorted = z3.ForAll([p, q], z3.Implies(z3.And(0 <= p, p <= q, q < a.length), a.at(p) <= a.at(q)))
    cx.assume(z3.And(0 <= i, i <= a.length))
    cx.assume(z3.Implies(is_sorted, z3.And(
        z3.ForAll([j], z3.Implies(z3.And(0 <= j, j < i), a.at(j) <= xx)),
        z3.ForAll([j], z3.Implies(z3.And(i <= j, j < a.length), a.at(j) > xx)))))
    return SV(i, "int")


_orig_zip = MODELS[id(builtins.zip)][1]


@model(builtins.zip)
def m_zip(it, *seqs, strict=False):
    if seqs and all(isinstance(s_, SSeq) for s_ in seqs):
        return SZip(list(seqs))
    return _orig_zip(it, *seqs, strict=strict)
