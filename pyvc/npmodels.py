"""pyvc.npmodels -- the few numpy / bisect operations used on 1-D arrays by the functions under contract, modelled on
symbolic sequences (SSeq with pytype numpy.ndarray): np.array, np.concatenate, slicing, `in`, bisect."""
import bisect as _bisect

import numpy as np
import z3

from .core import SV, OutOfSubset, Symbolic
from .coll import SSeq, SZip, seq_concat, seq_from_list
from .models import model, MODELS
from . import ops
import builtins


@model(np.array, np.asarray)
def m_np_array(it, obj, *a, **k):
    from .tensor import STensor
    if isinstance(obj, STensor):
        return STensor(obj.shape_, obj.fn, obj.dtype, obj.name)
    if isinstance(obj, SSeq):
        return SSeq(it.cx, obj.ec, obj.name, obj.length, obj.arr, np.ndarray)
    if isinstance(obj, (list, tuple)) and any(isinstance(x, Symbolic) for x in obj):
        ec = it.engine.codec_for(obj[0])
        return seq_from_list(it.cx, ec, list(obj), pytype=np.ndarray, name="arr")
    if not any(isinstance(x, Symbolic) for x in (obj if isinstance(obj, (list, tuple)) else [obj])):
        return np.array(obj, *a, **k)
    raise OutOfSubset("np.array of this symbolic value")


@model(np.concatenate)
def m_np_concatenate(it, parts, *a, **k):
    parts = ops.native_iter(it, parts)
    acc = None
    for p in parts:
        acc = p if acc is None else seq_concat(it, acc, p)
    if isinstance(acc, SSeq):
        acc.pytype = np.ndarray
    return acc


@model(_bisect.bisect, _bisect.bisect_right)
def m_bisect(it, a, x, lo=0, hi=None):
    """bisect_right on a sorted array: the insertion point after any entry equal to x"""
    if not isinstance(a, SSeq):
        if isinstance(x, Symbolic):
            raise OutOfSubset("bisect of a symbolic value into a native list")
        return _bisect.bisect(a, x)
    cx = it.cx
    i = z3.Int(cx.fresh_name("bisect"))
    xx = a.ec.unwrap(x)
    p, q, j = z3.Ints(f"{cx.fresh_name('p')} {cx.fresh_name('q')} {cx.fresh_name('j')}")
    is_sorted = z3.ForAll([p, q], z3.Implies(z3.And(0 <= p, p <= q, q < a.length), a.at(p) <= a.at(q)))
    cx.assume(z3.And(0 <= i, i <= a.length))
    cx.assume(z3.Implies(is_sorted, z3.And(
        z3.ForAll([j], z3.Implies(z3.And(0 <= j, j < i), a.at(j) <= xx)),
        z3.ForAll([j], z3.Implies(z3.And(i <= j, j < a.length), a.at(j) > xx)))))
    return SV(i, "int")


_orig_zip = MODELS[id(builtins.zip)][1]


@model(builtins.zip)
def m_zip(it, *seqs, strict=False):
    if seqs and all(isinstance(s_, SSeq) for s_ in seqs):
        return SZip(list(seqs))
    return _orig_zip(it, *seqs, strict=strict)


# ----------------------------------------------------------------------------------------------------
# numpy on arrays represented as STensor (C20): nan-aware reductions, argmax(axis=), sorted index permutations,
# dot / inv / statsmodels.add_constant.  NaN is the explicit predicate isnan(x) on real entries (as for torch.isnan).

def _np_tensor_models():
    from . import tensor as T
    from .tensor import STensor, F_ISNAN, as_tensor, dim_z3, reduce_sum, TENSOR_METHODS, tmethod, R, I
    from .models import SRange, SymCallable
    from .core import to_z3

    model(np.isnan)(T.m_isnan)

    def _axis(t, axis):
        if axis is None:
            raise OutOfSubset("nan-reduction without axis")
        return axis % t.ndim

    def _nan_reduce(it, t, axis, kind):
        t = as_tensor(it, t)
        axis = _axis(t, axis)
        cx = it.cx
        J = dim_z3(t.shape_[axis])
        rest = tuple(d for k, d in enumerate(t.shape_) if k != axis)

        def full(idx, j):
            return tuple(list(idx[:axis]) + [j] + list(idx[axis:]))
        if kind == "mean":
            # nanmean = (sum of the non-NaN entries) / (their number); NaN (with a RuntimeWarning) when there is none
            obs = STensor(t.shape_, lambda idx: z3.If(F_ISNAN(t.fn(idx)), z3.RealVal(0), t.fn(idx)), "real")
            cnt = STensor(t.shape_, lambda idx: z3.If(F_ISNAN(t.fn(idx)), z3.RealVal(0), z3.RealVal(1)), "real")
            s, c = reduce_sum(it, obs, axis), reduce_sum(it, cnt, axis)
            nanv = z3.Const(cx.fresh_name("nan"), R)
            cx.assume(F_ISNAN(nanv))
            out = STensor(rest, lambda idx: z3.If(c.fn(idx) == 0, nanv, s.fn(idx) / c.fn(idx)), "real")
            iv = [z3.Int(cx.fresh_name("mi")) for _ in rest]
            body = z3.Implies(c.fn(tuple(iv)) != 0, z3.Not(F_ISNAN(s.fn(tuple(iv)) / c.fn(tuple(iv)))))
            cx.assume(z3.ForAll(iv, body) if iv else body)       # a mean of numbers is a number
            return out
        Fm = z3.Function(cx.fresh_name("nan" + kind), *([I] * len(rest)), R) if rest else None
        c0 = z3.Const(cx.fresh_name("nan" + kind), R) if not rest else None

        def val(idx):
            return Fm(*idx) if rest else c0
        iv = [z3.Int(cx.fresh_name("ri")) for _ in rest]
        j = z3.Int(cx.fresh_name("rj"))
        w = z3.Int(cx.fresh_name("rw"))
        dom = z3.And(*[z3.And(0 <= i, i < dim_z3(d)) for i, d in zip(iv, rest)]) if rest else z3.BoolVal(True)
        inj = z3.And(0 <= j, j < J)
        inw = z3.And(0 <= w, w < J)
        ent_j, ent_w = t.fn(full(iv, j)), t.fn(full(iv, w))
        allnan = z3.ForAll([j], z3.Implies(inj, F_ISNAN(ent_j)))
        bound = (ent_j <= val(iv)) if kind == "max" else (ent_j >= val(iv))
        body = z3.If(allnan, F_ISNAN(val(iv)),
                     z3.And(z3.Not(F_ISNAN(val(iv))),
                            z3.ForAll([j], z3.Implies(z3.And(inj, z3.Not(F_ISNAN(ent_j))), bound)),
                            z3.Exists([w], z3.And(inw, z3.Not(F_ISNAN(ent_w)), ent_w == val(iv)))))
        cx.assume(z3.ForAll(iv, z3.Implies(dom, body)) if iv else body)
        return STensor(rest, lambda idx: val(list(idx)), "real")

    @model(np.nanmax)
    def m_nanmax(it, a, axis=None, **kw):
        return _nan_reduce(it, a, axis, "max")

    @model(np.nanmin)
    def m_nanmin(it, a, axis=None, **kw):
        return _nan_reduce(it, a, axis, "min")

    @model(np.nanmean)
    def m_nanmean(it, a, axis=None, **kw):
        return _nan_reduce(it, a, axis, "mean")

    @model(np.sum)
    def m_npsum(it, a, axis=None, **kw):
        return reduce_sum(it, as_tensor(it, a), axis)

    @model(np.dot)
    def m_npdot(it, a, b):
        return T.matmul(it, as_tensor(it, a), as_tensor(it, b))


    @model(np.linalg.inv)
    def m_inv(it, a):
        """inverse of a 1x1 / 2x2 matrix: a fresh matrix G with A.G = G.A = I; a singular matrix raises LinAlgError"""
        a = as_tensor(it, a)
        cx = it.cx
        if a.ndim != 2 or a.shape_[0] != a.shape_[1] or a.shape_[0] not in (1, 2):
            raise OutOfSubset("np.linalg.inv of this shape")
        n = a.shape_[0]
        A = [[a.elem_real((z3.IntVal(r), z3.IntVal(c))) for c in range(n)] for r in range(n)]
        det = A[0][0] if n == 1 else A[0][0] * A[1][1] - A[0][1] * A[1][0]
        if cx.branch(det == 0):
            ops.raise_(np.linalg.LinAlgError, "Singular matrix")
        G = [[z3.Const(cx.fresh_name(f"inv{r}{c}"), R) for c in range(n)] for r in range(n)]
        for r in range(n):
            for c in range(n):
                unit = z3.RealVal(1 if r == c else 0)
                cx.assume(sum(A[r][k] * G[k][c] for k in range(n)) == unit)
                cx.assume(sum(G[r][k] * A[k][c] for k in range(n)) == unit)

        def fn(idx):
            e = G[n - 1][n - 1]
            for r in reversed(range(n)):
                for c in reversed(range(n)):
                    e = z3.If(z3.And(idx[0] == r, idx[1] == c), G[r][c], e)
            return e
        return STensor((n, n), fn, "real")

    def add_constant(it, data, prepend=True, has_constant="skip"):
        """statsmodels.tools.add_constant on a 1-D array with has_constant='add': the (n, 2) matrix [1, x] (or [x, 1])"""
        x = as_tensor(it, data)
        if x.ndim != 1 or has_constant != "add":
            raise OutOfSubset("add_constant of this input")
        # an EMPTY array is refused by the library (it looks for an existing constant column with a max / min reduction first)
        n0 = x.shape_[0]
        if (n0 == 0) if isinstance(n0, int) else it.cx.branch(dim_z3(n0) == 0):
            ops.raise_(ValueError, "zero-size array to reduction operation maximum which has no identity")
        one_col = 0 if prepend else 1
        return STensor((x.shape_[0], 2), lambda idx: z3.If(idx[1] == one_col, z3.RealVal(1), x.elem_real((idx[0],))), "real")
    _np_tensor_models.add_constant = add_constant


    def _like(value):
        def m_like(it, a, *args, **kw):
            if isinstance(a, SSeq):
                e = z3.RealVal(value) if a.ec.sort == R else z3.IntVal(value)
                j = z3.Int(it.cx.fresh_name("zl"))
                return SSeq(it.cx, a.ec, "like", a.length, z3.Lambda([j], e), np.ndarray)
            t = as_tensor(it, a)
            if t is None:
                raise OutOfSubset("zeros_like / ones_like of this value")
            return STensor(t.shape_, lambda idx: z3.RealVal(value), "real")
        return m_like
    model(np.zeros_like)(_like(0))
    model(np.ones_like)(_like(1))

    # argmax / argmin with numpy's keyword
    for nm, is_min in (("argmax", False), ("argmin", True)):
        def _mk(is_min):
            def t_arg(it, t, dim=None, keepdim=False, axis=None):
                return T._argext(it, t, dim if axis is None else axis, keepdim, is_min)
            return t_arg
        TENSOR_METHODS[nm] = _mk(is_min)

    @tmethod("flatten")
    def t_flatten(it, t, *a):
        if t.ndim == 1:
            return t
        if t.ndim == 2 and isinstance(t.shape_[1], int) and t.shape_[1] == 1:
            return STensor((t.shape_[0],), lambda idx: t.fn((idx[0], z3.IntVal(0))), t.dtype)
        raise OutOfSubset("flatten of this shape")

    def _sorted_range(self, it, key, reverse):
        """sorted(range(lo, hi), key=t.__getitem__, reverse=...): a permutation of the indices, ordered by key, stable
        (python's sort keeps the original order of equal keys, also with reverse=True)"""
        t = getattr(key, "_getitem_of", None)
        if not isinstance(t, STensor) or t.ndim != 1:
            raise OutOfSubset("sorted(range) with this key")
        cx = it.cx
        lo, hi = to_z3(self.lo, "int"), to_z3(self.hi, "int")
        n = z3.If(hi > lo, hi - lo, z3.IntVal(0))
        if cx.branch(z3.And(n > 0, z3.Or(lo < -dim_z3(t.shape_[0]), hi > dim_z3(t.shape_[0])))):
            ops.raise_(IndexError, "index out of bounds")
        perm = z3.Function(cx.fresh_name("perm"), I, I)
        inv = z3.Function(cx.fresh_name("perminv"), I, I)
        i, j, k = z3.Int(cx.fresh_name("pi")), z3.Int(cx.fresh_name("pj")), z3.Int(cx.fresh_name("pk"))

        def kv(x):
            x = z3.If(x >= 0, x, x + dim_z3(t.shape_[0]))
            return t.fn((x,))
        key_at_k = t.fn((k,))
        pats2 = [inv(k)] + ([key_at_k] if z3.is_app(key_at_k) and key_at_k.decl().kind() == z3.Z3_OP_UNINTERPRETED else [])
        cx.assume(z3.ForAll([i], z3.Implies(z3.And(0 <= i, i < n), z3.And(lo <= perm(i), perm(i) < hi, inv(perm(i)) == i)),
                            patterns=[perm(i)]))
        # every index of the range is somewhere in the result (instantiated wherever the key of an index is mentioned)
        cx.assume(z3.ForAll([k], z3.Implies(z3.And(lo <= k, k < hi), z3.And(0 <= inv(k), inv(k) < n, perm(inv(k)) == k)),
                            patterns=pats2))
        before = (kv(perm(i)) >= kv(perm(j))) if reverse else (kv(perm(i)) <= kv(perm(j)))
        cx.assume(z3.ForAll([i, j], z3.Implies(z3.And(0 <= i, i < j, j < n),
                                               z3.And(before, z3.Implies(kv(perm(i)) == kv(perm(j)), perm(i) < perm(j)))),
                            patterns=[z3.MultiPattern(perm(i), perm(j))]))
        return STensor((z3.simplify(n),), lambda idx: perm(idx[0]), "int")
    SRange._sorted = _sorted_range

    @model(np.column_stack)
    def m_column_stack(it, tup):
        """np.column_stack of 1-D arrays of one common length n: the (n, k) matrix whose j-th column is the j-th array (n = 0 included)"""
        cols = [as_tensor(it, c) for c in tup]
        if not cols or any(c is None or c.ndim != 1 for c in cols):
            raise OutOfSubset("np.column_stack of these inputs")
        n = cols[0].shape_[0]
        for c in cols[1:]:
            if T.dim_eq(c.shape_[0], n) is not True and it.cx.branch(dim_z3(c.shape_[0]) != dim_z3(n)):
                ops.raise_(ValueError, "all the input array dimensions except for the concatenation axis must match exactly")

        def fn(idx):
            e = cols[-1].elem_real((idx[0],))
            for j in range(len(cols) - 2, -1, -1):
                e = z3.If(idx[1] == j, cols[j].elem_real((idx[0],)), e)
            return e
        return STensor((n, len(cols)), fn, "real")

    @model(np.zeros)
    def m_np_zeros(it, shape, dtype=float, **k):
        """np.zeros(shape): an array of zeros (a tensor in the verifier: entries may later receive symbolic values)"""
        shp = tuple(shape) if isinstance(shape, (tuple, list)) else (shape,)
        if dtype in (bool, np.bool_):
            return T._full(shp, False, "bool")
        return T._full(shp, 0.0, "real")

    @model(np.ones)
    def m_np_ones(it, shape, dtype=float, **k):
        shp = tuple(shape) if isinstance(shape, (tuple, list)) else (shape,)
        if dtype in (bool, np.bool_):
            return T._full(shp, True, "bool")
        return T._full(shp, 1.0, "real")

    import math as _math

    def _num(it, x, what):
        if isinstance(x, STensor):
            x = T.TENSOR_METHODS["item"](it, x)
        if isinstance(x, SV):
            if x.kind not in ("real", "int", "bool"):
                raise OutOfSubset(f"{what} of a symbolic non-number")
            return to_z3(x, "real")
        if isinstance(x, (int, float)):
            return None
        raise OutOfSubset(f"{what} of {type(x).__name__}")

    # largest x with exp(x) representable as a double is log(DBL_MAX) = 709.78271289338397...; the engine's reals have no
    # overflow anywhere else (assumption "floats as reals"), but math.exp turns it into an EXCEPTION, i.e. control flow
    EXP_MAX = z3.RealVal("709.782712893384")

    @model(_math.exp)
    def m_math_exp(it, x):
        """math.exp(x) = exp(x); OverflowError('math range error') iff x > log(DBL_MAX)"""
        e = _num(it, x, "math.exp")
        if e is None:
            try:
                return _math.exp(x)
            except Exception as ex:
                ops.raise_(type(ex), *ex.args)
        if it.cx.branch(e > EXP_MAX):
            ops.raise_(OverflowError, "math range error")
        return SV(T.F_EXP(e), "real")

    @model(_math.log)
    def m_math_log(it, x, *base):
        """math.log(x) = log(x) for x > 0; ValueError('math domain error') otherwise"""
        if base:
            raise OutOfSubset("math.log with a base")
        e = _num(it, x, "math.log")
        if e is None:
            try:
                return _math.log(x)
            except Exception as ex:
                ops.raise_(type(ex), *ex.args)
        if it.cx.branch(e <= 0):
            ops.raise_(ValueError, "math domain error")
        return SV(T.F_LOG(e), "real")

    @model(_math.sqrt)
    def m_math_sqrt(it, x):
        """math.sqrt(x) = sqrt(x) for x >= 0; ValueError('math domain error') otherwise"""
        e = _num(it, x, "math.sqrt")
        if e is None:
            try:
                return _math.sqrt(x)
            except Exception as ex:
                ops.raise_(type(ex), *ex.args)
        if it.cx.branch(e < 0):
            ops.raise_(ValueError, "math domain error")
        return SV(T.F_SQRT(e), "real")

    _old_getattr = STensor._getattr

    def _getattr(self, it, name, node=None):
        if name == "__getitem__":
            c = SymCallable(lambda it_, idx: T.tensor_getitem(it_, self, idx, node), "Tensor.__getitem__")
            c._getitem_of = self
            return c
        return _old_getattr(self, it, name, node)
    STensor._getattr = _getattr


_np_tensor_models()


def register_statsmodels():
    """statsmodels is imported only by the LME benchmark: its one modelled function is registered on demand (C20)"""
    import statsmodels.api as sm
    from statsmodels.tools import tools as smtools
    for f in {sm.add_constant, smtools.add_constant}:
        model(f)(_np_tensor_models.add_constant)
