"""pyvc.selftest -- CPython cross-check of the symbolic executor, path by path.

For every unit / configuration / explored path whose inputs can be made concrete: take a model of the path condition (an input
that follows this path), run the REAL function natively on it, and compare outcome kind, returned value and final argument
state with what the engine predicts under the same model.  Paths whose prediction mentions uninterpreted functions (exp, log,
sums of unknown length, ghost streams ...) or whose inputs are abstract objects are skipped and counted.  A disagreement
means the engine (or a library model) misrepresents the code: reported as CHECKER-ERROR, never as a violation."""
from __future__ import annotations

import z3

from .core import Obligation
from . import replay as _replay


def _uninterpreted_functions(exprs):
    out, seen, stack = set(), set(), list(exprs)
    while stack:
        x = stack.pop()
        if not isinstance(x, z3.ExprRef) or x.get_id() in seen:
            continue
        seen.add(x.get_id())
        if z3.is_quantifier(x):
            stack.append(x.body())
            continue
        if z3.is_app(x):
            d = x.decl()
            if d.kind() == z3.Z3_OP_UNINTERPRETED and x.num_args() > 0:
                out.add(d.name())
            stack.extend(x.children())
    return out


def _exprs_of(v, acc, depth=0):
    from .core import SV, SymObj
    from .tensor import STensor
    if depth > 6:
        return
    if isinstance(v, SV):
        acc.append(v.e)
    elif isinstance(v, STensor):
        try:
            idx = tuple(z3.Int(f"st_i{k}") for k in range(v.ndim))
            acc.append(v.fn(idx))
        except Exception:
            pass
    elif isinstance(v, SymObj):
        for x in v.f.values():
            _exprs_of(x, acc, depth + 1)
    elif isinstance(v, dict):
        for x in v.values():
            _exprs_of(x, acc, depth + 1)
    elif isinstance(v, (list, tuple)):
        for x in v:
            _exprs_of(x, acc, depth + 1)


def _has_function(v, depth=0):
    import types
    from .core import Closure, BoundMethod, SymObj
    if isinstance(v, (Closure, BoundMethod, types.FunctionType, types.MethodType)):
        return True
    if depth > 5:
        return False
    if isinstance(v, SymObj):
        return any(_has_function(x, depth + 1) for x in v.f.values())
    if isinstance(v, dict):
        return any(_has_function(x, depth + 1) for x in v.values())
    if isinstance(v, (list, tuple)):
        return any(_has_function(x, depth + 1) for x in v)
    return False


def run(prop, log=print):
    from . import runner
    st = runner._setup(prop)
    eng = st["eng"]
    stats = dict(paths=0, agree=0, skipped_abstract=0, skipped_uninterpreted=0, skipped_contract_calls=0, no_model=0, disagree=[])
    for spec in st["units"]:
        if getattr(spec, "fragment", None) is not None:
            continue          # statement ranges have no native entry point
        eng = runner.engine_for(st, spec)[0]
        for cfg in spec.configs():
            try:
                obs, d = eng.verify_cfg(spec, cfg)
            except Exception as e:
                log(f"  selftest: {spec.target} [{spec.cfg_label(cfg)}] not executed: {e!r}")
                continue
            for cx in d["cxs"]:
                if getattr(cx, "infeasible", False) or getattr(cx, "oos", None) or not hasattr(cx, "outcome"):
                    continue
                stats["paths"] += 1
                if getattr(cx, "initial", None) is None:
                    stats["skipped_abstract"] += 1
                    continue
                if getattr(cx, "applied_specs", None):
                    stats["skipped_contract_calls"] += 1
                    continue
                if cx.outcome.kind == "return" and _has_function(cx.outcome.value):
                    stats["skipped_abstract"] += 1          # the result is (or contains) a function object: nothing to compare
                    continue
                acc = []
                out = cx.outcome
                if out.kind == "return":
                    _exprs_of(out.value, acc)
                    _exprs_of(cx.final_args, acc)
                uf = _uninterpreted_functions(acc + list(cx.pc))
                uf = {u for u in uf if not u.startswith("occurs_")}
                if uf:
                    stats["skipped_uninterpreted"] += 1
                    continue
                s = z3.Solver()
                s.set("timeout", 5000)
                s.add(*list(cx.background) if hasattr(cx, "background") else [])
                s.add(*cx.pc)
                if s.check() != z3.sat:
                    stats["no_model"] += 1
                    continue
                ob = Obligation("selftest", list(cx.pc), z3.BoolVal(False), meta={"cx": cx})
                try:
                    rec = _replay.generic_replay(ob, model=s.model())
                except Exception as e:
                    rec = {"confirmed": False, "note": f"replay crashed: {e!r}"}
                note = str((rec or {}).get("note", ""))
                if rec is None or "not concretisable" in note or note.startswith("replay crashed"):
                    stats["skipped_abstract"] += 1      # inputs / outcome are abstract objects: no native run possible
                elif rec.get("confirmed"):
                    stats["agree"] += 1
                else:
                    stats["disagree"].append(dict(unit=spec.target, cfg=spec.cfg_label(cfg), path=getattr(cx, "path_label", ""),
                                                  input=str(rec.get("input"))[:300], predicted=str(rec.get("predicted"))[:200],
                                                  observed=str(rec.get("observed"))[:200], note=rec.get("note")))
    return stats
