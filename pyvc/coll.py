"""pyvc.coll -- symbolic collections: maps (dict), sequences (tuple/list) of unknown size."""
from __future__ import annotations

import ast

import z3

from .core import SV, CheckerError, ExcValue, OutOfSubset, Symbolic, SymRaise, is_sym, to_z3
from . import ops


class Codec:
    """how interpreter values are stored in a z3 sort"""

    def __init__(self, sort, wrap=None, unwrap=None, name=None):
        self.sort = sort
        self._wrap = wrap
        self._unwrap = unwrap
        self.name = name or str(sort)

    def wrap(self, e):
        if self._wrap is not None:
            return self._wrap(e)
        return SV(e)

    def unwrap(self, v):
        if self._unwrap is not None:
            return self._unwrap(v)
        if v is None:
            raise OutOfSubset(f"None stored into a collection of {self.name}")
        if self.sort == z3.RealSort():
            return to_z3(v, "real")
        return to_z3(v)


class ListCodec(Codec):
    """python lists of exactly n numbers, stored as z3 arrays Int -> Real (a pure term: no side assumptions)"""

    def __init__(self, n):
        super().__init__(z3.ArraySort(z3.IntSort(), z3.RealSort()), name=f"list of {n} numbers")
        self.inner_len = n

    def wrap(self, e):
        return [SV(z3.Select(e, z3.IntVal(q)), "real") for q in range(self.inner_len)]

    def unwrap(self, v):
        if not (isinstance(v, list) and len(v) == self.inner_len):
            raise OutOfSubset(f"value stored into a collection of {self.name}")
        a = z3.K(z3.IntSort(), z3.RealVal(0))
        for q, x in enumerate(v):
            a = z3.Store(a, z3.IntVal(q), to_z3(x, "real"))
        return a


INT = Codec(z3.IntSort())
REAL = Codec(z3.RealSort())
STR = Codec(z3.StringSort())
BOOL = Codec(z3.BoolSort())


class SMap(Symbolic):
    """dict with symbolic key set.  dom : K -> Bool,  val : K -> V.  Mutable (python-object identity)."""

    def __init__(self, cx, kc: Codec, vc: Codec, name="m", dom=None, val=None, ordered_keys=None):
        self.kc, self.vc = kc, vc
        self.name = name
        self.dom = dom if dom is not None else z3.Const(cx.fresh_name(name + ".dom"), z3.ArraySort(kc.sort, z3.BoolSort()))
        self.val = val if val is not None else z3.Const(cx.fresh_name(name + ".val"), z3.ArraySort(kc.sort, vc.sort))

    # --- spec-side helpers (z3 level)
    def has(self, k):
        return z3.Select(self.dom, k)

    def at(self, k):
        return z3.Select(self.val, k)

    def snapshot(self):
        return SMap(None, self.kc, self.vc, self.name + "@old", dom=self.dom, val=self.val)

    def havoc(self, cx):
        self.dom = z3.Const(cx.fresh_name(self.name + ".dom"), self.dom.sort())
        self.val = z3.Const(cx.fresh_name(self.name + ".val"), self.val.sort())

    # --- interpreter protocol
    def _key(self, k):
        return self.kc.unwrap(k)

    def _contains(self, it, k, node=None):
        try:
            kk = self._key(k)
        except (CheckerError,):
            return False
        return SV(self.has(kk), "bool")

    def _getitem(self, it, k, node=None):
        kk = self._key(k)
        if not it.cx.branch(self.has(kk), node):
            ops.raise_(KeyError, k, node=node)
        return self.vc.wrap(self.at(kk))

    def _setitem(self, it, k, v, node=None):
        kk = self._key(k)
        self.dom = z3.Store(self.dom, kk, z3.BoolVal(True))
        self.val = z3.Store(self.val, kk, self.vc.unwrap(v))
        it.cx.log_write(("smap", id(self), None))

    def _isinstance(self, it, k):
        import collections.abc as cabc
        return k in (dict, object, cabc.Mapping, cabc.MutableMapping, cabc.Iterable, cabc.Collection, cabc.Sized, cabc.Container)

    def _type(self, it):
        return dict

    def _truth(self, it):
        k = z3.Const(it.cx.fresh_name("k"), self.kc.sort)
        return SV(z3.Exists([k], self.has(k)), "bool")

    def _deepcopy(self, it, memo):
        return SMap(it.cx, self.kc, self.vc, self.name + "'", dom=self.dom, val=self.val)

    def _getattr(self, it, name, node=None):
        from .models import SymCallable
        if name == "items":
            return SymCallable(lambda it_: SMapView(self, "items"), "dict.items")
        if name == "keys":
            return SymCallable(lambda it_: SMapView(self, "keys"), "dict.keys")
        if name == "values":
            return SymCallable(lambda it_: SMapView(self, "values"), "dict.values")
        if name == "get":
            def get(it_, k, default=None):
                kk = self._key(k)
                if it_.cx.branch(self.has(kk), node):
                    return self.vc.wrap(self.at(kk))
                return default
            return SymCallable(get, "dict.get")
        if name == "update":
            def update(it_, other):
                if isinstance(other, SMap):
                    cx = it_.cx
                    k = z3.Const(cx.fresh_name("k"), self.kc.sort)
                    nval = z3.Const(cx.fresh_name(self.name + ".val"), self.val.sort())
                    ndom = z3.Const(cx.fresh_name(self.name + ".dom"), self.dom.sort())
                    # definitional extension (kept lambda-free for the solvers)
                    cx.assume(z3.ForAll([k], z3.Select(nval, k) == z3.If(other.has(k), other.at(k), self.at(k))))
                    cx.assume(z3.ForAll([k], z3.Select(ndom, k) == z3.Or(other.has(k), self.has(k))))
                    self.val, self.dom = nval, ndom
                    cx.log_write(("smap", id(self), None))
                    return None
                if isinstance(other, dict):
                    for kk, vv in other.items():
                        self._setitem(it_, kk, vv, node)
                    return None
                raise OutOfSubset("dict.update argument", node)
            return SymCallable(update, "dict.update")
        if name == "copy":
            return SymCallable(lambda it_: SMap(it_.cx, self.kc, self.vc, self.name + "'", dom=self.dom, val=self.val), "dict.copy")
        raise OutOfSubset(f"dict method {name} on symbolic map", node)


class SMapView(Symbolic):
    def __init__(self, m: SMap, kind):
        self.m = m
        self.kind = kind

    def _contains(self, it, k, node=None):
        if self.kind == "keys":
            return self.m._contains(it, k, node)
        raise OutOfSubset("`in` on dict values/items view", node)

    def _to_set(self, it):
        if self.kind == "keys":
            return SSet(self.m.kc, self.m.dom)
        raise OutOfSubset("set() of dict values/items view")

    def _compare(self, it, name, other, rev, node):
        if self.kind == "keys" and name in ("eq", "ne"):
            return SSet(self.m.kc, self.m.dom)._compare(it, name, other, rev, node)
        return NotImplemented


class SSet(Symbolic):
    """a set of K given by its characteristic array"""

    def __init__(self, kc: Codec, chi):
        self.kc = kc
        self.chi = chi

    def has(self, k):
        return z3.Select(self.chi, k)

    def _contains(self, it, k, node=None):
        return SV(self.has(self.kc.unwrap(k)), "bool")

    def _isinstance(self, it, k):
        import collections.abc as cabc
        return k in (set, frozenset, object, cabc.Set, cabc.Iterable, cabc.Collection, cabc.Sized, cabc.Container)

    def _len(self, it):
        """cardinality: an uninterpreted non-negative integer that is 0 exactly for the empty set"""
        card = z3.Function("card_" + str(self.kc.sort), self.chi.sort(), z3.IntSort())
        k = z3.Const(it.cx.fresh_name("k"), self.kc.sort)
        c = card(self.chi)
        it.cx.assume(z3.And(c >= 0, (c == 0) == z3.ForAll([k], z3.Not(self.has(k)))))
        return SV(c, "int")

    def _truth(self, it):
        k = z3.Const(it.cx.fresh_name("k"), self.kc.sort)
        return SV(z3.Exists([k], self.has(k)), "bool")

    def _binop(self, it, name, other, rev, node, inplace):
        # s - t, s | t, s & t  (set algebra); `rev` = the symbolic set is the right operand
        meth = {"sub": "difference", "or_": "union", "and_": "intersection", "or": "union", "and": "intersection"}.get(name)
        if meth is None:
            return NotImplemented
        if rev:
            oc = self._as_chi(it, other)
            if oc is None:
                return NotImplemented
            return SSet(self.kc, oc)._getattr(it, meth, node)(it, self)
        return self._getattr(it, meth, node)(it, other)

    def _as_chi(self, it, other):
        """characteristic array of another set-like value (SSet, or a native set / frozenset of values)"""
        if isinstance(other, SSet):
            return other.chi
        if isinstance(other, (set, frozenset, list, tuple)):
            chi = z3.K(self.kc.sort, z3.BoolVal(False))
            for x in other:
                chi = z3.Store(chi, self.kc.unwrap(x), z3.BoolVal(True))
            return chi
        return None

    def _getattr(self, it, name, node=None):
        from .models import SymCallable
        cx = it.cx
        if name in ("difference", "union", "intersection"):
            def op(it_, *others):
                chi = self.chi
                k = z3.Const(cx.fresh_name("k"), self.kc.sort)
                for o in others:
                    oc = self._as_chi(it_, o)
                    if oc is None:
                        raise OutOfSubset(f"set.{name} with {type(o).__name__}", node)
                    new = z3.Const(cx.fresh_name("set"), self.chi.sort())
                    cur = z3.Select(chi, k)
                    oth = z3.Select(oc, k)
                    body = {"difference": z3.And(cur, z3.Not(oth)), "union": z3.Or(cur, oth), "intersection": z3.And(cur, oth)}[name]
                    cx.assume(z3.ForAll([k], z3.Select(new, k) == body))       # definitional extension (lambda-free)
                    chi = new
                return SSet(self.kc, chi)
            return SymCallable(op, f"set.{name}")
        raise OutOfSubset(f"set method {name} on a symbolic set", node)

    def _compare(self, it, name, other, rev, node):
        if name not in ("eq", "ne"):
            return NotImplemented
        if isinstance(other, SMapView) and other.kind == "keys":
            other = SSet(other.m.kc, other.m.dom)
        if isinstance(other, SSet):
            k = z3.Const(it.cx.fresh_name("k"), self.kc.sort)
            e = z3.ForAll([k], self.has(k) == other.has(k))
            return SV(e if name == "eq" else z3.Not(e), "bool")
        return NotImplemented


_MEMF = {}


def _memf(sort):
    key = sort.name() if hasattr(sort, "name") else str(sort)
    if key not in _MEMF:
        _MEMF[key] = (z3.Function(f"occurs_{key}", z3.ArraySort(z3.IntSort(), sort), z3.IntSort(), sort, z3.BoolSort()), sort)
    return _MEMF[key][0]


def member_formula(seq, x, upto=None):
    """`x occurs in seq before position upto` as an atom occurs(arr, n, x); its definition
    (exists j. 0 <= j < n and arr[j] = x) is the axiom returned by member_axioms().  Facts about concatenation, slicing and
    literals are stated over these atoms, so that chaining them is propositional."""
    n = seq.length if upto is None else upto
    return _memf(seq.ec.sort)(seq.arr, n, x)


def member_axioms():
    out = []
    for key, (f, sort) in _MEMF.items():
        A = z3.Const(f"A_{key}", z3.ArraySort(z3.IntSort(), sort))
        n, j = z3.Ints(f"n_{key} j_{key}")
        x = z3.Const(f"x_{key}", sort)
        out.append(z3.ForAll([A, n, x], f(A, n, x) == z3.Exists([j], z3.And(0 <= j, j < n, A[j] == x))))
        # unfolding of the bound
        out.append(z3.ForAll([A, n, x], z3.Implies(n >= 0, f(A, n + 1, x) == z3.Or(f(A, n, x), A[n] == x))))
    return out


class SSeq(Symbolic):
    """immutable sequence (tuple / list used read-only) of symbolic length"""

    def __init__(self, cx, ec: Codec, name="s", length=None, arr=None, pytype=tuple):
        self.ec = ec
        self.name = name
        self.length = length if length is not None else z3.Int(cx.fresh_name(name + ".len"))
        self.arr = arr if arr is not None else z3.Const(cx.fresh_name(name + ".arr"), z3.ArraySort(z3.IntSort(), ec.sort))
        self.pytype = pytype
        self.mem = None      # optional exact membership characterisation: z3 element -> Bool

    def at(self, i):
        return z3.Select(self.arr, i)

    def wf(self):
        return self.length >= 0

    def _len(self, it):
        return SV(self.length, "int")

    def _type(self, it):
        return self.pytype

    def _isinstance(self, it, k):
        import collections.abc as cabc
        return k in (self.pytype, object, cabc.Sequence, cabc.Iterable, cabc.Collection, cabc.Sized, cabc.Container)

    def _truth(self, it):
        return SV(self.length > 0, "bool")

    def _getitem(self, it, idx, node=None):
        if isinstance(idx, slice):
            if idx.step is not None:
                raise OutOfSubset("slice step on symbolic sequence", node)
            cx = it.cx
            n = self.length

            def clamp(b, default):
                if b is None:
                    return default
                bz = to_z3(b, "int")
                if cx.check(z3.Not(z3.And(0 <= bz, bz <= n))) == z3.unsat:
                    return bz           # within bounds on this path: no clamping needed
                bz = z3.If(bz < 0, bz + n, bz)
                return z3.If(bz < 0, z3.IntVal(0), z3.If(bz > n, n, bz))
            lo, hi = clamp(idx.start, z3.IntVal(0)), clamp(idx.stop, n)
            ln = z3.simplify(hi - lo) if cx.check(hi < lo) == z3.unsat else z3.simplify(z3.If(hi > lo, hi - lo, z3.IntVal(0)))
            out = SSeq(cx, self.ec, self.name + "[:]", length=ln, pytype=self.pytype)
            j = z3.Int(cx.fresh_name("j"))
            cx.assume(z3.ForAll([j], z3.Implies(z3.And(0 <= j, j < out.length), out.at(j) == self.at(j + lo))))
            # a prefix s[:i] and the suffix s[i:] at the same index split the elements of s
            if not hasattr(self, "_slices"):
                self._slices = {}
            if idx.start is None and idx.stop is not None:
                self._slices[("pre", hi.get_id())] = out
                other = self._slices.get(("suf", hi.get_id()))
            elif idx.stop is None and idx.start is not None:
                self._slices[("suf", lo.get_id())] = out
                other = self._slices.get(("pre", lo.get_id()))
            else:
                other = None
            if other is not None:
                x = z3.Const(cx.fresh_name("xs"), self.ec.sort)
                cx.assume(z3.ForAll([x], member_formula(self, x) == z3.Or(member_formula(out, x), member_formula(other, x))))
            return out
        i = to_z3(idx, "int")
        n = self.length
        if it.cx.branch(z3.Or(i >= n, i < -n), node):
            ops.raise_(IndexError, "sequence index out of range", node=node)
        return self.ec.wrap(self.at(z3.If(i >= 0, i, i + n)))

    def _fresh_like(self, cx, base):
        return SSeq(cx, self.ec, base, pytype=self.pytype)

    def _unpack(self, it, n_items, node):
        if it.cx.branch(self.length != n_items, node):
            ops.raise_(ValueError, "wrong number of values to unpack", node=node)
        return [self.ec.wrap(self.at(z3.IntVal(q))) for q in range(n_items)]

    def _contains(self, it, x, node=None):
        j = z3.Int(it.cx.fresh_name("j"))
        xx = self.ec.unwrap(x)
        if self.mem is not None:
            return SV(self.mem(xx), "bool")
        return SV(member_formula(self, xx), "bool")
        return SV(z3.Exists([j], z3.And(0 <= j, j < self.length, self.at(j) == xx)), "bool")

    def _binop(self, it, name, other, rev, node, inplace):
        if name == "add":
            a, b = (other, self) if rev else (self, other)
            return seq_concat(it, a, b, node)
        return NotImplemented

    def _deepcopy(self, it, memo):
        return SSeq(it.cx, self.ec, self.name + "'", self.length, self.arr, self.pytype)

    def _havoc(self, cx):
        # an arbitrary list (same object): used for a list a loop body appends to
        self.length = z3.Int(cx.fresh_name(self.name + ".len"))
        self.arr = z3.Const(cx.fresh_name(self.name + ".arr"), z3.ArraySort(z3.IntSort(), self.ec.sort))
        self.mem = None
        self._slices = {}
        cx.assume(self.length >= 0)

    def _getattr(self, it, name, node=None):
        from .models import SymCallable
        if name == "append" and self.pytype is list:
            def append(it_, x):
                # in-place: the list object keeps its identity, its abstract value grows by one element
                self.arr = z3.Store(self.arr, self.length, self.ec.unwrap(x))
                self.length = z3.simplify(self.length + 1)
                self._slices = {}
                it_.cx.log_write(("sseq", id(self), None))
                return None
            return SymCallable(append, "list.append")
        if name == "copy" and self.pytype is list:
            return SymCallable(lambda it_: SSeq(it_.cx, self.ec, self.name + "'", self.length, self.arr, list), "list.copy")
        raise OutOfSubset(f"method {name} on a symbolic {self.pytype.__name__}", node)

    def _enumerate(self, it, start=0):
        return SEnum(self, start)

    def _to_set(self, it):
        cx = it.cx
        chi = z3.Const(cx.fresh_name("setof"), z3.ArraySort(self.ec.sort, z3.BoolSort()))
        x = z3.Const(cx.fresh_name("x"), self.ec.sort)
        cx.assume(z3.ForAll([x], z3.Select(chi, x) == member_formula(self, x)))
        return SSet(self.ec, chi)

    def _to_tuple(self, it):
        return SSeq(it.cx, self.ec, self.name, self.length, self.arr, tuple)

    def _to_list(self, it):
        return SSeq(it.cx, self.ec, self.name, self.length, self.arr, list)


def seq_concat(it, a, b, node=None):
    cx = it.cx
    ec = a.ec if isinstance(a, SSeq) else b.ec

    def parts(x):
        """length, element-at function, membership function (or None)"""
        if isinstance(x, SSeq):
            return x.length, (lambda j: x.at(j)), x.mem
        if isinstance(x, (tuple, list)):
            elems = [ec.unwrap(v) for v in x]
            n = len(elems)

            def at(j):
                e = elems[-1]
                for k in range(n - 2, -1, -1):
                    e = z3.If(j == k, elems[k], e)
                return e
            return z3.IntVal(n), (at if n else None), (lambda m: z3.Or(*[m == e for e in elems]) if elems else z3.BoolVal(False))
        raise OutOfSubset("sequence concatenation operand", node)
    la, ata, mema = parts(a)
    lb, atb, memb = parts(b)
    if ata is None:
        return b if isinstance(b, SSeq) else a
    if atb is None:
        return a
    pt = a.pytype if isinstance(a, SSeq) else b.pytype
    out = SSeq(cx, ec, "cat", length=z3.simplify(la + lb), pytype=pt)
    j = z3.Int(cx.fresh_name("j"))
    # definitional extension, lambda-free
    cx.assume(z3.ForAll([j], z3.Implies(z3.And(0 <= j, j < la + lb),
                                        out.at(j) == z3.If(j < la, ata(j), atb(j - la)))))
    if mema is not None and memb is not None:
        out.mem = lambda m: z3.Or(mema(m), memb(m))
    # membership in a concatenation (a theorem about sequences, stated with the canonical member formula)
    x = z3.Const(cx.fresh_name("xc"), ec.sort)

    def memf(part, m):
        if isinstance(part, SSeq):
            return member_formula(part, m)
        return z3.Or(*[m == ec.unwrap(v) for v in part]) if len(part) else z3.BoolVal(False)
    cx.assume(z3.ForAll([x], member_formula(out, x) == z3.Or(memf(a, x), memf(b, x))))
    return out


def seq_from_list(cx, ec: Codec, items, pytype=list, name="lit"):
    """a sequence with concretely many (symbolic) elements"""
    out = SSeq(cx, ec, name, length=z3.IntVal(len(items)), pytype=pytype)
    for q, v in enumerate(items):
        cx.assume(out.at(z3.IntVal(q)) == ec.unwrap(v))
    elems = [ec.unwrap(v) for v in items]
    out.mem = (lambda m: z3.Or(*[m == e for e in elems])) if elems else (lambda m: z3.BoolVal(False))
    x = z3.Const(cx.fresh_name("xl"), ec.sort)
    cx.assume(z3.ForAll([x], member_formula(out, x) == out.mem(x)))
    return out


class SEnum(Symbolic):
    """enumerate(seq) of a sequence of unknown length"""
    _symbolic_iterable = True

    def __init__(self, seq, start=0):
        self.seq, self.start = seq, start

    def _loop_view(self, it):
        seq, st = self.seq, to_z3(self.start, "int")
        return seq.length, (lambda j: (SV(z3.simplify(j + st), "int"), seq.ec.wrap(seq.at(j)))), (lambda j: j)


class SZip(Symbolic):
    """zip(...) of symbolic sequences: iterated in lock-step up to the shortest"""
    _symbolic_iterable = True

    def __init__(self, seqs):
        self.seqs = seqs

    def _loop_view(self, it):
        n = self.seqs[0].length
        for s_ in self.seqs[1:]:
            n = z3.If(s_.length < n, s_.length, n)
        return z3.simplify(n), (lambda j: tuple(s_.ec.wrap(s_.at(j)) for s_ in self.seqs)), (lambda j: self.seqs[0].at(j))
