"""pyvc.coll -- symbolic collections: maps (dict), sequences (tuple/list) of unknown size."""
from __future__ import annotations

import ast

import z3

from .core import SV, CheckerError, ExcValue, OutOfSubset, Symbolic, SymRaise, is_sym, to_z3
from . import ops


class Codec:
    """how interpreter values are stored in a z3 sort"""

    def __init__(self, sort, wrap=None, unwrap=None, name=None):
        self.sort = sort
        self._wrap = wrap
        self._unwrap = unwrap
        self.name = name or str(sort)

    def wrap(self, e):
        if self._wrap is not None:
            return self._wrap(e)
        return SV(e)

    def unwrap(self, v):
        if self._unwrap is not None:
            return self._unwrap(v)
        if v is None:
            raise OutOfSubset(f"None stored into a collection of {self.name}")
        if self.sort == z3.RealSort():
            return to_z3(v, "real")
        return to_z3(v)


INT = Codec(z3.IntSort())
REAL = Codec(z3.RealSort())
STR = Codec(z3.StringSort())
BOOL = Codec(z3.BoolSort())


class SMap(Symbolic):
    """dict with symbolic key set.  dom : K -> Bool,  val : K -> V.  Mutable (python-object identity)."""

    def __init__(self, cx, kc: Codec, vc: Codec, name="m", dom=None, val=None, ordered_keys=None):
        self.kc, self.vc = kc, vc
        self.name = name
        self.dom = dom if dom is not None else z3.Const(cx.fresh_name(name + ".dom"), z3.ArraySort(kc.sort, z3.BoolSort()))
        self.val = val if val is not None else z3.Const(cx.fresh_name(name + ".val"), z3.ArraySort(kc.sort, vc.sort))

    # --- spec-side helpers (z3 level)
    def has(self, k):
        return z3.Select(self.dom, k)

    def at(self, k):
        return z3.Select(self.val, k)

    def snapshot(self):
        return SMap(None, self.kc, self.vc, self.name + "@old", dom=self.dom, val=self.val)

    def havoc(self, cx):
        self.dom = z3.Const(cx.fresh_name(self.name + ".dom"), self.dom.sort())
        self.val = z3.Const(cx.fresh_name(self.name + ".val"), self.val.sort())

    # --- interpreter protocol
    def _key(self, k):
        return self.kc.unwrap(k)

    def _contains(self, it, k, node=None):
        try:
            kk = self._key(k)
        except (CheckerError,):
            return False
        return SV(self.has(kk), "bool")

    def _getitem(self, it, k, node=None):
        kk = self._key(k)
        if not it.cx.branch(self.has(kk), node):
            ops.raise_(KeyError, k, node=node)
        return self.vc.wrap(self.at(kk))

    def _setitem(self, it, k, v, node=None):
        kk = self._key(k)
        self.dom = z3.Store(self.dom, kk, z3.BoolVal(True))
        self.val = z3.Store(self.val, kk, self.vc.unwrap(v))
        it.cx.log_write(("smap", id(self), None))

    def _isinstance(self, it, k):
        import collections.abc as cabc
        return k in (dict, object, cabc.Mapping, cabc.MutableMapping, cabc.Iterable, cabc.Collection, cabc.Sized, cabc.Container)

    def _type(self, it):
        return dict

    def _truth(self, it):
        k = z3.Const(it.cx.fresh_name("k"), self.kc.sort)
        return SV(z3.Exists([k], self.has(k)), "bool")

    def _deepcopy(self, it, memo):
        return SMap(it.cx, self.kc, self.vc, self.name + "'", dom=self.dom, val=self.val)

    def _getattr(self, it, name, node=None):
        from .models import SymCallable
        if name == "items":
            return SymCallable(lambda it_: SMapView(self, "items"), "dict.items")
        if name == "keys":
            return SymCallable(lambda it_: SMapView(self, "keys"), "dict.keys")
        if name == "values":
            return SymCallable(lambda it_: SMapView(self, "values"), "dict.values")
        if name == "get":
            def get(it_, k, default=None):
                kk = self._key(k)
                if it_.cx.branch(self.has(kk), node):
                    return self.vc.wrap(self.at(kk))
                return default
            return SymCallable(get, "dict.get")
        if name == "update":
            def update(it_, other):
                if isinstance(other, SMap):
                    cx = it_.cx
                    k = z3.Const(cx.fresh_name("k"), self.kc.sort)
                    nval = z3.Const(cx.fresh_name(self.name + ".val"), self.val.sort())
                    ndom = z3.Const(cx.fresh_name(self.name + ".dom"), self.dom.sort())
                    # definitional extension (kept lambda-free for the solvers)
                    cx.assume(z3.ForAll([k], z3.Select(nval, k) == z3.If(other.has(k), other.at(k), self.at(k))))
                    cx.assume(z3.ForAll([k], z3.Select(ndom, k) == z3.Or(other.has(k), self.has(k))))
                    self.val, self.dom = nval, ndom
                    cx.log_write(("smap", id(self), None))
                    return None
                if isinstance(other, dict):
                    for kk, vv in other.items():
                        self._setitem(it_, kk, vv, node)
                    return None
                raise OutOfSubset("dict.update argument", node)
            return SymCallable(update, "dict.update")
        if name == "copy":
            return SymCallable(lambda it_: SMap(it_.cx, self.kc, self.vc, self.name + "'", dom=self.dom, val=self.val), "dict.copy")
        raise OutOfSubset(f"dict method {name} on symbolic map", node)


class SMapView(Symbolic):
    def __init__(self, m: SMap, kind):
        self.m = m
        self.kind = kind

    def _contains(self, it, k, node=None):
        if self.kind == "keys":
            return self.m._contains(it, k, node)
        raise OutOfSubset("`in` on dict values/items view", node)

    def _to_set(self, it):
        if self.kind == "keys":
            return SSet(self.m.kc, self.m.dom)
        raise OutOfSubset("set() of dict values/items view")

    def _compare(self, it, name, other, rev, node):
        if self.kind == "keys" and name in ("eq", "ne"):
            return SSet(self.m.kc, self.m.dom)._compare(it, name, other, rev, node)
        return NotImplemented


class SSet(Symbolic):
    """a set of K given by its characteristic array"""

    def __init__(self, kc: Codec, chi):
        self.kc = kc
        self.chi = chi

    def has(self, k):
        return z3.Select(self.chi, k)

    def _contains(self, it, k, node=None):
        return SV(self.has(self.kc.unwrap(k)), "bool")

    def _compare(self, it, name, other, rev, node):
        if name not in ("eq", "ne"):
            return NotImplemented
        if isinstance(other, SMapView) and other.kind == "keys":
            other = SSet(other.m.kc, other.m.dom)
        if isinstance(other, SSet):
            k = z3.Const(it.cx.fresh_name("k"), self.kc.sort)
            e = z3.ForAll([k], self.has(k) == other.has(k))
            return SV(e if name == "eq" else z3.Not(e), "bool")
        return NotImplemented


class SSeq(Symbolic):
    """immutable sequence (tuple / list used read-only) of symbolic length"""

    def __init__(self, cx, ec: Codec, name="s", length=None, arr=None, pytype=tuple):
        self.ec = ec
        self.name = name
        self.length = length if length is not None else z3.Int(cx.fresh_name(name + ".len"))
        self.arr = arr if arr is not None else z3.Const(cx.fresh_name(name + ".arr"), z3.ArraySort(z3.IntSort(), ec.sort))
        self.pytype = pytype
        self.mem = None      # optional exact membership characterisation: z3 element -> Bool

    def at(self, i):
        return z3.Select(self.arr, i)

    def wf(self):
        return self.length >= 0

    def _len(self, it):
        return SV(self.length, "int")

    def _type(self, it):
        return self.pytype

    def _isinstance(self, it, k):
        import collections.abc as cabc
        return k in (self.pytype, object, cabc.Sequence, cabc.Iterable, cabc.Collection, cabc.Sized, cabc.Container)

    def _truth(self, it):
        return SV(self.length > 0, "bool")

    def _getitem(self, it, idx, node=None):
        if isinstance(idx, slice):
            if idx.step is not None:
                raise OutOfSubset("slice step on symbolic sequence", node)
            lo = to_z3(idx.start, "int") if idx.start is not None else z3.IntVal(0)
            if idx.stop is not None:
                raise OutOfSubset("slice stop on symbolic sequence", node)
            # s[lo:]  (lo >= 0 assumed concrete-nonneg or symbolic within range)
            n = self.length
            lo_c = z3.If(lo > n, n, lo)
            j = z3.Int(it.cx.fresh_name("j"))
            return SSeq(it.cx, self.ec, self.name + "[lo:]", length=n - lo_c,
                        arr=z3.Lambda([j], self.at(j + lo_c)), pytype=self.pytype)
        i = to_z3(idx, "int")
        n = self.length
        if it.cx.branch(z3.Or(i >= n, i < -n), node):
            ops.raise_(IndexError, "sequence index out of range", node=node)
        return self.ec.wrap(self.at(z3.If(i >= 0, i, i + n)))

    def _contains(self, it, x, node=None):
        j = z3.Int(it.cx.fresh_name("j"))
        xx = self.ec.unwrap(x)
        if self.mem is not None:
            return SV(self.mem(xx), "bool")
        return SV(z3.Exists([j], z3.And(0 <= j, j < self.length, self.at(j) == xx)), "bool")

    def _binop(self, it, name, other, rev, node, inplace):
        if name == "add":
            a, b = (other, self) if rev else (self, other)
            return seq_concat(it, a, b, node)
        return NotImplemented

    def _to_tuple(self, it):
        return SSeq(it.cx, self.ec, self.name, self.length, self.arr, tuple)

    def _to_list(self, it):
        return SSeq(it.cx, self.ec, self.name, self.length, self.arr, list)


def seq_concat(it, a, b, node=None):
    cx = it.cx
    ec = a.ec if isinstance(a, SSeq) else b.ec

    def parts(x):
        """length, element-at function, membership function (or None)"""
        if isinstance(x, SSeq):
            return x.length, (lambda j: x.at(j)), x.mem
        if isinstance(x, (tuple, list)):
            elems = [ec.unwrap(v) for v in x]
            n = len(elems)

            def at(j):
                e = elems[-1]
                for k in range(n - 2, -1, -1):
                    e = z3.If(j == k, elems[k], e)
                return e
            return z3.IntVal(n), (at if n else None), (lambda m: z3.Or(*[m == e for e in elems]) if elems else z3.BoolVal(False))
        raise OutOfSubset("sequence concatenation operand", node)
    la, ata, mema = parts(a)
    lb, atb, memb = parts(b)
    if ata is None:
        return b if isinstance(b, SSeq) else a
    if atb is None:
        return a
    pt = a.pytype if isinstance(a, SSeq) else b.pytype
    out = SSeq(cx, ec, "cat", length=z3.simplify(la + lb), pytype=pt)
    j = z3.Int(cx.fresh_name("j"))
    # definitional extension, lambda-free
    cx.assume(z3.ForAll([j], z3.Implies(z3.And(0 <= j, j < la + lb),
                                        out.at(j) == z3.If(j < la, ata(j), atb(j - la)))))
    if mema is not None and memb is not None:
        out.mem = lambda m: z3.Or(mema(m), memb(m))
    return out
