"""pyvc.nra -- generalisation retry for nonlinear real obligations.

An obligation hyps => goal that times out is retried in a *stronger* form in which big nonlinear subterms are
replaced by fresh real variables constrained only by facts that are true of the replaced term:
  sqrt(a)  ->  r      with  a >= 0 => (r >= 0 and r*r = a),  a > 0 => r > 0
  x / y    ->  x * q  with  q * y = 1                         (only when hyps => y != 0 is established first)
If the generalised obligation is unsat, so is the original one (every model of the original extends to a model of
the generalisation by r := sqrt(a), q := 1/y)."""
import z3


def _collect(formulas, pred):
    out, seen = [], set()
    stack = list(formulas)
    while stack:
        x = stack.pop()
        if x.get_id() in seen:
            continue
        seen.add(x.get_id())
        if z3.is_quantifier(x):
            stack.append(x.body())
            continue
        if z3.is_app(x):
            if pred(x):
                out.append(x)
            stack.extend(x.children())
    return out


def generalise(hyps, goal, timeout_ms=3000):
    """returns (hyps', goal') or None when nothing can be abstracted"""
    formulas = list(hyps) + [goal]
    # innermost-first: repeat until no sqrt / division by a non-numeral is left (bounded)
    extra = []
    changed = False
    root_of = {}     # id of sqrt variable -> radicand
    for rnd in range(12):
        sq = [t for t in _collect(formulas, lambda x: x.decl().name() == "sqrt" and x.num_args() == 1)
              if not _collect([t.arg(0)], lambda x: x.decl().name() == "sqrt" and x.num_args() == 1)]
        if sq:
            subs = []
            for i, t in enumerate(sq):
                r = z3.Real(f"√{rnd}_{i}")
                a = t.arg(0)
                subs.append((t, r))
                root_of[r.get_id()] = a
                extra.append(z3.Implies(a >= 0, z3.And(r >= 0, r * r == a)))
                extra.append(z3.Implies(a > 0, r > 0))
            formulas = [z3.substitute(f, *subs) for f in formulas]
            extra = [z3.substitute(f, *subs) for f in extra]
            changed = True
            continue
        dv = [t for t in _collect(formulas + extra, lambda x: x.decl().kind() == z3.Z3_OP_DIV and not z3.is_rational_value(z3.simplify(x.arg(1))))
              if not _collect([t.arg(1)], lambda x: x.decl().kind() == z3.Z3_OP_DIV)]
        if not dv:
            break
        dens = {}
        for t in dv:
            dens.setdefault(t.arg(1).get_id(), t.arg(1))
        subs = []
        ok_any = False
        qs = {}
        for j, (did, y) in enumerate(dens.items()):
            s = z3.Solver()
            s.set("timeout", timeout_ms)
            s.add(*formulas[:-1], *extra, y == 0)
            if s.check() != z3.unsat:
                continue
            q = z3.Real(f"inv{rnd}_{j}")
            qs[did] = q
            extra.append(q * y == 1)
            if y.get_id() in root_of:
                # (q r)^2 = 1 with r^2 = a: a derived fact the solver does not find by itself
                a = root_of[y.get_id()]
                extra.append(z3.Implies(a >= 0, q * q * a == 1))
            ok_any = True
        if not ok_any:
            break
        for t in dv:
            q = qs.get(t.arg(1).get_id())
            if q is not None:
                subs.append((t, t.arg(0) * q))
        formulas = [z3.substitute(f, *subs) for f in formulas]
        extra = [z3.substitute(f, *subs) for f in extra]
        changed = True
    if not changed:
        return None
    return formulas[:-1] + extra, formulas[-1]


# ---------------------------------------------------------------------------------------------------
import re as _re


def purify(formulas):
    """replace every product of two or more non-numeral factors (and every division by a non-numeral) by an
    application of an uninterpreted function of the factors (sorted canonically).  The purified problem has fewer
    facts than real arithmetic, so its unsatisfiability implies that of the original: used for two-run
    (non-interference) obligations, which only need congruence, never nonlinear arithmetic."""
    cache = {}
    zero_facts = []
    R = z3.RealSort()

    def key(e):
        return _re.sub(r"#[12]", "", str(e))

    def rec(e):
        i = e.get_id()
        if i in cache:
            return cache[i]
        if z3.is_quantifier(e):
            body = rec(e.body())
            vs = [z3.Const(e.var_name(j), e.var_sort(j)) for j in range(e.num_vars())]
            # rebuild the quantifier around the purified body (bound variables are de Bruijn indices: keep them)
            r = z3.ForAll(vs, z3.substitute_vars(body, *reversed(vs))) if e.is_forall() else \
                z3.Exists(vs, z3.substitute_vars(body, *reversed(vs)))
            cache[i] = r
            return r
        if not z3.is_app(e) or e.num_args() == 0:
            cache[i] = e
            return e
        ch = [rec(c) for c in e.children()]
        k = e.decl().kind()
        if k == z3.Z3_OP_MUL and z3.is_real(e):
            nums = [c for c in ch if z3.is_rational_value(c) or z3.is_int_value(c)]
            rest = [c for c in ch if not (z3.is_rational_value(c) or z3.is_int_value(c))]
            if len(rest) >= 2:
                rest = sorted(rest, key=key)
                f = z3.Function(f"pmul{len(rest)}", *([R] * (len(rest) + 1)))
                r = f(*rest)
                if not any(z3.is_var(x) for x in rest) and len(zero_facts) < 4000:
                    # a product with a zero factor is zero (what masking by 0/1 indicators needs)
                    zero_facts.append(z3.Implies(z3.Or(*[x == 0 for x in rest]), r == 0))
                for c in nums:
                    r = c * r
                cache[i] = r
                return r
        if k == z3.Z3_OP_DIV and z3.is_real(e) and not (z3.is_rational_value(ch[1]) or z3.is_int_value(ch[1])):
            f = z3.Function("pdiv", R, R, R)
            r = f(ch[0], ch[1])
            cache[i] = r
            return r
        r = e if all(a.eq(b) for a, b in zip(ch, e.children())) else e.decl()(*ch)
        cache[i] = r
        return r
    out = [rec(f) for f in formulas]
    return out + zero_facts
