"""pyvc.num -- arithmetic on z3 scalar terms in two domains: reals (default) and IEEE-754 (z3 FP sorts).

An expression is in IEEE mode as soon as one operand has a floating-point sort; the other operand
(integer / real numeral, boolean) is lifted exactly (numerals are rounded to nearest-even once, as a
literal would be)."""
import z3

RM = z3.RNE()
F32 = z3.Float32()
F64 = z3.Float64()


def is_fp(e):
    return z3.is_expr(e) and z3.is_fp_sort(e.sort())


def lift(e, sort):
    if is_fp(e):
        if e.sort() == sort:
            return e
        return z3.fpFPToFP(RM, e, sort)
    if z3.is_bool(e):
        return z3.If(e, z3.FPVal(1.0, sort), z3.FPVal(0.0, sort))
    e = z3.simplify(e) if z3.is_expr(e) else e
    if z3.is_int_value(e):
        return z3.FPVal(float(e.as_long()), sort)
    if z3.is_rational_value(e):
        return z3.FPVal(e.numerator_as_long() / e.denominator_as_long(), sort)
    if z3.is_int(e):
        return z3.fpToFP(RM, z3.ToReal(e), sort)
    if z3.is_real(e):
        # an If over numerals (bool tensors turned into 0/1) is lifted branch-wise
        if z3.is_app_of(e, z3.Z3_OP_ITE):
            c, a, b = e.children()
            return z3.If(c, lift(a, sort), lift(b, sort))
        return z3.fpToFP(RM, e, sort)
    raise TypeError(f"cannot lift {e} to {sort}")


def _pair(x, y):
    if is_fp(x) or is_fp(y):
        s = x.sort() if is_fp(x) else y.sort()
        return lift(x, s), lift(y, s), True
    return x, y, False


def add(x, y):
    a, b, fp = _pair(x, y)
    return z3.fpAdd(RM, a, b) if fp else a + b


def sub(x, y):
    a, b, fp = _pair(x, y)
    return z3.fpSub(RM, a, b) if fp else a - b


def mul(x, y):
    a, b, fp = _pair(x, y)
    return z3.fpMul(RM, a, b) if fp else a * b


def div(x, y):
    a, b, fp = _pair(x, y)
    return z3.fpDiv(RM, a, b) if fp else a / b


def neg(x):
    return z3.fpNeg(x) if is_fp(x) else -x


def absv(x):
    return z3.fpAbs(x) if is_fp(x) else z3.If(x >= 0, x, -x)


def lt(x, y):
    a, b, fp = _pair(x, y)
    return z3.fpLT(a, b) if fp else a < b


def le(x, y):
    a, b, fp = _pair(x, y)
    return z3.fpLEQ(a, b) if fp else a <= b


def gt(x, y):
    a, b, fp = _pair(x, y)
    return z3.fpGT(a, b) if fp else a > b


def ge(x, y):
    a, b, fp = _pair(x, y)
    return z3.fpGEQ(a, b) if fp else a >= b


def eq(x, y):
    a, b, fp = _pair(x, y)
    return z3.fpEQ(a, b) if fp else a == b


def ne(x, y):
    a, b, fp = _pair(x, y)
    return z3.Not(z3.fpEQ(a, b)) if fp else a != b


def ite(c, x, y):
    a, b, fp = _pair(x, y)
    return z3.If(c, a, b)


def same(x, y):
    """bit-level sameness for specs: equal numbers, or both NaN (so a NaN result is 'the same' only as NaN)"""
    a, b, fp = _pair(x, y)
    if fp:
        return z3.Or(z3.fpEQ(a, b), z3.And(z3.fpIsNaN(a), z3.fpIsNaN(b)))
    return a == b
