"""pyvc.report -- decide one property: deductive units + bounded stand-ins, known findings, ledger, evidence."""
from __future__ import annotations

import fnmatch
import importlib
import json
import os
import sys
import time
import traceback

import z3

from . import driver
from .driver import ROOT, EXIT_OK, EXIT_VIOLATION, EXIT_UNDECIDED, EXIT_CHECKER

ASSUMPTIONS_COMMON = [
    "encoder: pyvc's translation of the Python subset to SMT (guarded by mutation self-test and native replay of counterexamples, not proved)",
    "library models of builtins/stdlib/torch operations used by the functions under contract (listed under coverage.trusted_base)",
    "machine arithmetic treated as mathematical (ints exact; floats as reals) except obligations marked IEEE",
    "solvers z3 5.1 / cvc5 1.0.3: an unsat answer is accepted",
    "tensor aliasing: in-place updates reach every holder of the object and are written through views (basic indexing, detach, cpu, contiguous, float of a float tensor, copy.copy); "
    "and views show later updates of their base (cross-checked against torch by tools/alias_selftest.py); NOT modelled: memory shared through Tensor.numpy()",
]


def ledger_path(prop):
    return os.path.join(ROOT, "ledger", f"{prop}.json")


def load_ledger(prop):
    try:
        return json.load(open(ledger_path(prop)))
    except FileNotFoundError:
        return None


def unit_hashes(results):
    """unit target -> {function qualname: source hash} over every function the verifier executed for it"""
    out = {}
    for r in results:
        d = out.setdefault(r["unit"], {})
        for f in r.get("functions", []):
            if "sha256_16" in f:
                d[f["qualname"]] = f["sha256_16"]
    return out


def check_lean(path):
    """machine-check a Lean 4 (+ Mathlib) file; the verdict is cached under lemmas/.checked keyed by the file's hash (the
    lemmas do not depend on /repo) and recomputed whenever the file changes or the cache is absent (fresh restore)"""
    import hashlib, re, subprocess
    text = open(path).read()
    h = hashlib.sha256(text.encode()).hexdigest()[:16]
    stamp = os.path.join(os.path.dirname(path), ".checked", os.path.basename(path) + "." + h)
    theorems = re.findall(r"^theorem\s+(\w+)", text, flags=re.M)
    if os.path.exists(stamp):
        return {"file": os.path.relpath(path, ROOT), "sha256_16": h, "theorems": theorems, "ok": True, "cached": True, "output": ""}
    t0 = time.time()
    try:
        r = subprocess.run(["lean", path], capture_output=True, text=True, timeout=1200)
        ok, out = r.returncode == 0 and "error" not in r.stdout.lower() and "sorry" not in (r.stdout + text).lower(), (r.stdout + r.stderr)[-600:]
    except Exception as e:
        ok, out = False, repr(e)
    if ok:
        os.makedirs(os.path.dirname(stamp), exist_ok=True)
        open(stamp, "w").write("accepted by lean\n")
    return {"file": os.path.relpath(path, ROOT), "sha256_16": h, "theorems": theorems, "ok": ok, "cached": False,
            "seconds": round(time.time() - t0, 1), "output": out}


def run_property(prop, tier, seed, args):
    from . import runner, smt
    t_start = time.time()
    log = (lambda s: print(s, flush=True)) if args.verbose else (lambda s: None)
    known = driver.load_known_findings()
    # runs against a scratch copy of the repository (mutation tests) must not touch the committed evidence
    scratch = os.environ.get("VERIF_REPO") not in (None, "", "/repo")
    out_root = os.path.join(os.environ["VERIF_REPO"], "_verif_out") if scratch else ROOT
    os.makedirs(os.path.join(out_root, "evidence"), exist_ok=True)
    rep_dir = os.path.join(out_root, "replays", prop)
    os.makedirs(rep_dir, exist_ok=True)
    for f in os.listdir(rep_dir):
        os.unlink(os.path.join(rep_dir, f))

    violations, known_hits, undecided, checker_errors = [], [], [], []
    have_contracts = os.path.exists(os.path.join(ROOT, "contracts", f"{prop.lower()}.py"))
    results = []
    ob_list = []
    n_ob = n_dis = 0
    solver_time = symex_time = 0.0
    mod = None
    if have_contracts:
        results = runner.run_all(prop, tier, known)
        mod = runner._STATE["mod"]
        ledger = load_ledger(prop)
        hashes = unit_hashes(results)
        if getattr(args, "update_ledger", False):
            os.makedirs(os.path.join(ROOT, "ledger"), exist_ok=True)
        changed_units = set()
        if ledger is not None:
            for u, hs in hashes.items():
                if ledger.get("units", {}).get(u, {}).get("hashes") != hs:
                    changed_units.add(u)
        # retry the unknowns of changed units with a long budget before calling them failed
        retry = [(r, e) for r in results for e in r["obligations"] if e["status"] == "unknown" and e.get("smt2")
                 and (r["unit"] in changed_units)]
        if retry:
            import multiprocessing as mp
            work = [(i, e["smt2"], 60000, True) for i, (r, e) in enumerate(retry)]
            with mp.get_context("fork").Pool(min(16, len(work))) as pool:
                for i, res in pool.imap_unordered(smt._work, work, chunksize=1):
                    r, e = retry[i]
                    e["retry"] = {"status": res["status"], "solver": res.get("solver"), "seconds": round(res.get("time", 0), 2),
                                  "detail": res.get("detail")}
                    if res["status"] == "unsat":
                        e["status"] = "discharged"
                        e["solver"] = res.get("solver")
                    elif res["status"] == "sat":
                        e["status"] = "refuted"
                        e["model"] = {k: v for k, v in res.get("model", {}).items() if "!" not in k}
                        e["confirmed"] = False
        idx = 0
        for r in results:
            log(f"  {r['unit']} [{r['cfg']}]: {len(r['obligations'])} obligations, {r['paths']} paths, {r['wall']}s"
                + (f"  OUT-OF-SUBSET {r['oos'][:1]}" if r["oos"] else "") + (f"  ERROR {r['error']}" if r.get("error") else ""))
            symex_time += r.get("symex_s", 0)
            if r.get("error"):
                checker_errors.append(f"job {r['job']}: {r['error']}")
                if args.verbose:
                    print(r.get("trace"))
            if r["oos"]:
                undecided.append(f"{r['unit']} [{r['cfg']}]: out of the verifier's subset: {r['oos'][0]}")
            if not r["obligations"] and not r["oos"] and not r.get("error"):
                checker_errors.append(f"unit {r['unit']} [{r['cfg']}] generated zero obligations (vacuous)")
            for e in r["obligations"]:
                idx += 1
                n_ob += 1
                solver_time += e.get("seconds", 0)
                if e.get("checker_error"):
                    checker_errors.append(e["checker_error"])
                entry = {k: e[k] for k in ("name", "unit", "status", "solver", "seconds", "where") if e.get(k) is not None}
                if e["status"] == "discharged":
                    n_dis += 1
                elif e["status"] == "refuted-known-finding":
                    known_hits.append(e["known"])
                    if e.get("outside_region"):
                        undecided.append(f"{e['name']}: outside the known-finding region: undecided")
                elif e["status"] == "refuted":
                    path = os.path.join(rep_dir, f"ob_{idx:04d}.json")
                    rec = {"property": prop, "obligation": e["name"], "unit": e["unit"], "where": e.get("where"),
                           "solver": e.get("solver"), "solver_model": e.get("model"), "goal": e.get("goal"),
                           "replay": e.get("replay")}
                    if not e.get("confirmed"):
                        rec["note"] = ("no-failing-input-found: the obligation is refuted by the solver (model above, "
                                       "SMT-LIB below); no concrete failing input was reproduced on the real code")
                        rec["smt2"] = e.get("smt2")
                    json.dump(rec, open(path, "w"), indent=1, default=str)
                    violations.append((e["name"], path, bool(e.get("confirmed"))))
                    entry["replay"] = os.path.relpath(path, ROOT)
                    entry["replay_confirmed"] = bool(e.get("confirmed"))
                else:
                    why = f"{e.get('detail')}" + (f"; retry: {e['retry']}" if e.get("retry") else "")
                    if r["unit"] in changed_units:
                        # the unit's source differs from the ledger (unchanged tree) and an obligation that is
                        # discharged there no longer is: a failed obligation, reported without a failing input
                        entry["status"] = "failed (was discharged for the ledger's source; undischarged after 60 s retry, both solvers)"
                        path = os.path.join(rep_dir, f"ob_{idx:04d}.json")
                        json.dump({"property": prop, "obligation": e["name"], "unit": e["unit"], "where": e.get("where"),
                                   "note": "no-failing-input-found: this obligation is discharged for the source recorded in the "
                                           "ledger (unchanged tree); with the current source of the unit it is not, and neither "
                                           "solver finds a model within the budget",
                                   "changed_functions": sorted(k for k, v in hashes.get(r["unit"], {}).items()
                                                               if ledger["units"].get(r["unit"], {}).get("hashes", {}).get(k) != v),
                                   "solver_output": why, "smt2": e.get("smt2")}, open(path, "w"), indent=1, default=str)
                        violations.append((e["name"], path, False))
                        entry["replay"] = os.path.relpath(path, ROOT)
                    else:
                        undecided.append(f"{e['name']}: {why}")
                ob_list.append(entry)
        if getattr(args, "update_ledger", False):
            if n_dis + sum(1 for e in ob_list if e["status"] == "refuted-known-finding") == n_ob and not undecided:
                json.dump({"property": prop,
                           "units": {u: {"hashes": hs, "obligations": sum(len(r["obligations"]) for r in results if r["unit"] == u)}
                                     for u, hs in hashes.items()}},
                          open(ledger_path(prop), "w"), indent=1, sort_keys=True)
                print(f"ledger written: {ledger_path(prop)}")
            else:
                print("ledger NOT written: the run is not green")
        elif ledger is None:
            checker_errors.append("no ledger for this property (run ./check PROP --update-ledger on the unchanged tree)")

    # ------------------------------------------------------------------ Lean lemmas over the contracts
    lean_results = []
    for rel in (getattr(mod, "LEAN_FILES", []) if mod else []):
        lean_results.append(check_lean(os.path.join(ROOT, rel)))
        if not lean_results[-1]["ok"]:
            checker_errors.append(f"Lean lemma file {rel} is not accepted: {lean_results[-1]['output'][:300]}")

    # ------------------------------------------------------------------ bounded stand-ins
    bounded = []
    smod = None
    if os.path.exists(os.path.join(ROOT, "standin", f"{prop.lower()}.py")):
        smod = importlib.import_module(f"standin.{prop.lower()}")
        import signal

        class _StandinTimeout(BaseException):
            pass

        def _alarm(signum, frame):
            raise _StandinTimeout()
        limit = 2400 if tier == "quick" else 6 * 3600        # wall-clock guard: far above any stand-in of the unchanged tree
        for fn in smod.STANDINS:
            t0 = time.time()
            old_handler = signal.signal(signal.SIGALRM, _alarm)
            signal.setitimer(signal.ITIMER_REAL, limit)
            try:
                r = fn(tier, seed)
            except _StandinTimeout:
                # a scenario that never comes back (library code that no longer terminates, or the harness): undecided, never a hang
                undecided.append(f"stand-in {fn.__name__}: did not finish within {limit} s of wall-clock time")
                continue
            except Exception as e:
                traceback.print_exc()
                checker_errors.append(f"stand-in {fn.__name__} crashed: {e!r}")
                continue
            finally:
                signal.setitimer(signal.ITIMER_REAL, 0)
                signal.signal(signal.SIGALRM, old_handler)
            r["name"] = fn.__name__
            r["wall_s"] = round(time.time() - t0, 2)
            for v in r.pop("violations", []):
                kf = None
                for k in known:
                    if k.get("property") == prop and k.get("standin") and fnmatch.fnmatch(v["key"], k["standin"].replace("~", " ")):
                        kf = k
                if kf is not None:
                    known_hits.append(kf)
                    continue
                path = os.path.join(rep_dir, f"standin_{fn.__name__}_{len(violations)}.json")
                json.dump({"property": prop, "kind": "bounded stand-in (run-time contract on the real function)",
                           "standin": fn.__name__, **v}, open(path, "w"), indent=1, default=str)
                violations.append((f"stand-in {fn.__name__}: {v['key']}", path, True))
            log(f"  stand-in {fn.__name__}: {r.get('evaluations')} evaluations, {r['wall_s']}s")
            bounded.append(r)

    # ------------------------------------------------------------------ verdict + evidence
    seen_kf = []
    for kf in known_hits:
        if kf.get("what") in seen_kf:
            continue
        seen_kf.append(kf.get("what"))
        print(f"KNOWN-FINDING: property={prop} {kf.get('what', '')}")
    shown = 0
    for label, path, confirmed in violations:
        print(f"VIOLATION property={prop} replay={path}" + ("" if confirmed else " no-failing-input-found"))
        print(f"  failed obligation: {label}"[:300])
    for u in undecided[:40]:
        print(f"UNDECIDED property={prop} {u}"[:400])
    for c in checker_errors:
        print(f"CHECKER-ERROR property={prop} {c}"[:400])

    wall = time.time() - t_start
    ev = {"property_id": prop, "tier": tier if tier in ("quick", "thorough") else "quick", "seed": seed,
          "wall_s": round(wall, 2), "violations": len(violations)}
    cov = {}
    refuted_known = sum(1 for e in ob_list if e["status"] == "refuted-known-finding")
    if have_contracts:
        functions = {}
        units = {}
        models_used = set()
        vac = set()
        samples = []
        for r in results:
            for f in r.get("functions", []):
                functions[f["qualname"]] = f
            u = units.setdefault(r["unit"], {"target": r["unit"], "doc": r.get("doc", ""), "configs": 0, "paths": 0,
                                             "obligations": 0, "out_of_subset": [], "wall_s": 0.0})
            u["configs"] += 1
            u["paths"] += r["paths"]
            u["obligations"] += len(r["obligations"])
            u["out_of_subset"] += r["oos"]
            u["wall_s"] = round(u["wall_s"] + r["wall"], 2)
            models_used |= set(r.get("models_used", []))
            vac |= set(r.get("vacuous", []))
            for e in r["obligations"]:
                if e.get("sample_smt2") and len(samples) < 2:
                    samples.append({"obligation": e["name"], "smt2": e["sample_smt2"]})
        cov.update({
            "obligations": n_ob, "discharged": n_dis, "refuted_known_findings": refuted_known,
            "failed_or_refuted_new": len([v for v in violations if not v[0].startswith("stand-in")]),
            "undecided": undecided,
            "checker_cmd": f"./check {prop} --tier {tier}   (pyvc: VCs from the AST of the real functions; z3-solver "
                           f"{z3.get_version_string()} python API, /usr/bin/cvc5 1.0.3 on z3's unknowns"
                           + ("; both solvers on every obligation)" if tier == "thorough" else ")"),
            "trusted_base": ["pyvc symbolic executor (/verif/pyvc)"] + [f"library model: {m}" for m in sorted(models_used)]
                            + [f"assumed callee contract: {s.target} -- {(s.__doc__ or '').strip().splitlines()[0] if s.__doc__ else ''}"
                               for s in getattr(mod, "CALLEES", [])],
            "functions": sorted(functions.values(), key=lambda d: d["qualname"]),
            "units": list(units.values()),
            "obligation_list": ob_list,
            "solver_time_s": round(solver_time, 2), "symex_time_s": round(symex_time, 2),
            "vacuous_asserts_in_code": sorted(vac),
            "not_decided": getattr(mod, "NOT_DECIDED", []),
            "samples": samples,
        })
    if bounded:
        cov["bounded"] = bounded
        cov["evaluations"] = sum(b.get("evaluations", 0) for b in bounded)
        cov["distinct_nontrivial"] = sum(b.get("distinct_nontrivial", 0) for b in bounded)
        cov["rule"] = " | ".join(f"{b['name']}: {b.get('rule', '')}" for b in bounded)
        cov.setdefault("samples", [])
        for b in bounded:
            cov["samples"].extend(b.get("samples", [])[:2])
    listed_findings = [k for k in known if k.get("property") == prop]
    if have_contracts and n_ob > 0 and n_dis == n_ob and not violations and not undecided and not seen_kf and not listed_findings:
        ev["level"] = "proof"
    elif have_contracts:
        ev["level"] = "other"
        cov["explanation"] = (f"{len(listed_findings)} known finding(s) listed for this property in known_findings.txt; "
                              f"deductive obligations: {n_dis} discharged of {n_ob}; {refuted_known} refuted and listed as known "
                              f"findings; {len(undecided)} undecided; {len(violations)} violations. Level 'proof' is written "
                              "only by a run in which every obligation is discharged.")
    else:
        ev["level"] = "exploration"
    # a property decided mainly by bounded stand-ins says so: the contracts module may lower (never raise) the level
    declared = getattr(mod, "LEVEL", None) if mod else None
    if declared in ("exploration", "other") and ev["level"] == "proof":
        ev["level"] = declared
        if declared == "other":
            cov["explanation"] = getattr(mod, "LEVEL_REASON", "level lowered by the contracts module")
    if lean_results:
        cov["lean_lemmas"] = lean_results
    ev["coverage"] = cov
    ev["assumptions"] = ASSUMPTIONS_COMMON + (list(getattr(mod, "ASSUMPTIONS", [])) if mod else []) + \
        (list(getattr(smod, "ASSUMPTIONS", [])) if smod else [])
    ev["known_findings_reported"] = seen_kf
    path = os.path.join(out_root, "evidence", f"{prop}.json")
    json.dump(ev, open(path, "w"), indent=1, default=str)
    try:
        import jsonschema
        jsonschema.validate(json.load(open(path)), json.load(open("/root/.vp/EVIDENCE.schema.json")))
    except FileNotFoundError:
        pass
    except Exception as e:
        print(f"CHECKER-ERROR property={prop} evidence does not validate: {str(e)[:300]}")
        return EXIT_CHECKER

    print(f"{prop} [{tier}] obligations={n_ob} discharged={n_dis} known={len(seen_kf)} "
          f"violations={len(violations)} undecided={len(undecided)} standins={len(bounded)} wall={wall:.1f}s")
    if violations:
        return EXIT_VIOLATION
    if checker_errors:
        return EXIT_CHECKER
    if undecided:
        return EXIT_UNDECIDED
    return EXIT_OK
