"""pyvc.report -- decide one property: deductive units + bounded stand-ins, known findings, evidence."""
from __future__ import annotations

import fnmatch
import hashlib
import importlib
import json
import os
import sys
import time
import traceback

import z3

from . import driver
from .driver import ROOT, EXIT_OK, EXIT_VIOLATION, EXIT_UNDECIDED, EXIT_CHECKER

ASSUMPTIONS_COMMON = [
    "encoder: pyvc's translation of the Python subset to SMT (guarded by mutation self-test and CPython cross-check, not proved)",
    "library models of builtins/stdlib/torch operations used by the functions under contract (listed under coverage.trusted_base)",
    "machine arithmetic treated as mathematical (ints exact; floats as reals) except obligations marked IEEE",
    "solvers z3 5.1 / cvc5 1.0.3: an unsat answer is accepted",
]


def _consts_of(formulas):
    out = {}
    seen = set()
    stack = list(formulas)
    while stack:
        x = stack.pop()
        i = x.get_id()
        if i in seen:
            continue
        seen.add(i)
        if z3.is_quantifier(x):
            stack.append(x.body())
            continue
        if z3.is_app(x):
            if x.num_args() == 0 and x.decl().kind() == z3.Z3_OP_UNINTERPRETED:
                out[x.decl().name()] = x
            else:
                stack.extend(x.children())
    return out


def _region_formula(region, ob):
    """known-finding region: python expression over the obligation's input constants"""
    consts = _consts_of(list(ob.hyps) + [ob.goal])
    env = {k: v for k, v in consts.items() if k.isidentifier()}
    env.update({"And": z3.And, "Or": z3.Or, "Not": z3.Not, "Implies": z3.Implies, "ToReal": z3.ToReal})
    try:
        return eval(region, {"__builtins__": {}}, env)
    except Exception:
        return None


def _match_known(prop, ob, known):
    for kf in known:
        if kf.get("property") != prop:
            continue
        pat = kf.get("obligation", "*").replace("~", " ")
        if fnmatch.fnmatch(ob.full_name(), pat) or fnmatch.fnmatch(ob.name, pat):
            return kf
    return None


def run_property(prop, tier, seed, args):
    from . import smt
    t_start = time.time()
    log = (lambda s: print(s)) if args.verbose else (lambda s: None)
    known = driver.load_known_findings()
    os.makedirs(os.path.join(ROOT, "evidence"), exist_ok=True)
    rep_dir = os.path.join(ROOT, "replays", prop)
    os.makedirs(rep_dir, exist_ok=True)
    for f in os.listdir(rep_dir):
        os.unlink(os.path.join(rep_dir, f))

    violations = []       # (label, replay_path, confirmed)
    known_hits = []
    undecided = []
    checker_errors = []

    # ------------------------------------------------------------------ deductive part
    ded = None
    try:
        ded = driver.run_deductive(prop, tier, seed, log)
    except ModuleNotFoundError as e:
        if f"contracts.{prop.lower()}" not in str(e):
            raise
    ob_list = []
    n_ob = n_dis = 0
    solver_time = 0.0
    if ded is not None:
        mod = ded["mod"]
        by_unit_oos = {u["target"]: u["out_of_subset"] for u in ded["units"]}
        for u in ded["units"]:
            if u["out_of_subset"]:
                undecided.append(f"{u['target']}: out-of-subset {u['out_of_subset'][0]}")
            if u["obligations"] == 0 and not u["out_of_subset"]:
                checker_errors.append(f"unit {u['target']} generated zero obligations (vacuous)")
        for i, (ob, res) in enumerate(zip(ded["obligations"], ded["results"])):
            n_ob += 1
            solver_time += res.get("time", 0.0)
            entry = {"name": ob.full_name(), "unit": ob.unit, "status": res["status"],
                     "solver": res.get("solver"), "seconds": round(res.get("time", 0.0), 3)}
            if ob.where:
                entry["where"] = ob.where
            if res["status"] == "unsat":
                n_dis += 1
                entry["status"] = "discharged"
            elif res["status"] == "sat":
                entry["status"] = "refuted"
                kf = _match_known(prop, ob, known)
                handled = False
                if kf is not None:
                    region = kf.get("region")
                    outside = None
                    if region:
                        rf = _region_formula(region.replace("~", " "), ob)
                        if rf is None:
                            checker_errors.append(f"known-finding region {region!r} does not evaluate on {ob.full_name()}")
                        else:
                            # is the obligation refutable *outside* the recorded region?
                            from .core import Obligation
                            ob2 = Obligation(ob.name, list(ob.hyps) + [z3.Not(rf)], ob.goal)
                            r2, _ = smt.discharge([ob2], timeout_ms=10000 if tier == "quick" else 60000)
                            outside = r2[0]["status"]
                    if not region or outside == "unsat":
                        known_hits.append((kf, ob))
                        entry["status"] = "refuted-known-finding"
                        handled = True
                    elif outside == "sat":
                        res = r2[0]  # report the new counterexample
                    else:
                        entry["status"] = "refuted-known-finding (outside region undecided)"
                        known_hits.append((kf, ob))
                        undecided.append(f"{ob.full_name()}: outside the known-finding region: {outside}")
                        handled = True
                if not handled:
                    path, confirmed = write_replay(prop, rep_dir, i, ob, res, ded, mod)
                    violations.append((ob.full_name(), path, confirmed))
                    entry["replay"] = os.path.relpath(path, ROOT)
                    entry["replay_confirmed"] = confirmed
            else:
                undecided.append(f"{ob.full_name()}: {res['status']} ({res.get('detail', '')})")
            ob_list.append(entry)

    # ------------------------------------------------------------------ bounded stand-ins
    bounded = []
    try:
        smod = importlib.import_module(f"standin.{prop.lower()}")
    except ModuleNotFoundError as e:
        if f"standin.{prop.lower()}" not in str(e) and "standin" not in str(e):
            raise
        smod = None
    if smod is not None:
        for fn in smod.STANDINS:
            t0 = time.time()
            try:
                r = fn(tier, seed)
            except Exception as e:
                traceback.print_exc()
                checker_errors.append(f"stand-in {fn.__name__} crashed: {e!r}")
                continue
            r["name"] = fn.__name__
            r["wall_s"] = round(time.time() - t0, 2)
            for v in r.pop("violations", []):
                kf = None
                for k in known:
                    if k.get("property") == prop and k.get("standin") and fnmatch.fnmatch(v["key"], k["standin"].replace("~", " ")):
                        kf = k
                if kf is not None:
                    known_hits.append((kf, None))
                    continue
                path = os.path.join(rep_dir, f"standin_{fn.__name__}_{len(violations)}.json")
                json.dump({"property": prop, "kind": "bounded stand-in (run-time contract on the real function)",
                           "standin": fn.__name__, **v}, open(path, "w"), indent=1, default=str)
                violations.append((f"stand-in {fn.__name__}: {v['key']}", path, True))
            bounded.append(r)

    # ------------------------------------------------------------------ verdict + evidence
    seen_kf = set()
    for kf, ob in known_hits:
        key = (kf.get("obligation"), kf.get("standin"), kf.get("what"))
        if key in seen_kf:
            continue
        seen_kf.add(key)
        print(f"KNOWN-FINDING: property={prop} {kf.get('what', '')}")
    for label, path, confirmed in violations:
        print(f"VIOLATION property={prop} replay={path}" + ("" if confirmed else " no-failing-input-found"))
        print(f"  failed obligation: {label}")
    for u in undecided:
        print(f"UNDECIDED property={prop} {u}")
    for c in checker_errors:
        print(f"CHECKER-ERROR property={prop} {c}")

    wall = time.time() - t_start
    proof_ok = ded is not None and n_ob > 0 and n_dis == n_ob and not violations
    ev = {
        "property_id": prop, "tier": tier if tier in ("quick", "thorough") else "quick", "seed": seed,
        "wall_s": round(wall, 2), "violations": len(violations),
    }
    cov = {}
    if ded is not None:
        refuted_known = sum(1 for e in ob_list if e["status"].startswith("refuted-known"))
        cov.update({
            "obligations": n_ob, "discharged": n_dis,
            "refuted_known_findings": refuted_known,
            "refuted_new": sum(1 for e in ob_list if e["status"] == "refuted"),
            "undecided": [u for u in undecided],
            "checker_cmd": f"./check {prop} --tier {tier}   (pyvc: VCs from the AST of the real functions; z3-solver {z3.get_version_string()} python API, /usr/bin/cvc5 1.0.3 on z3's unknowns" + ("; both solvers on every obligation)" if tier == "thorough" else ")"),
            "trusted_base": ["pyvc symbolic executor (/verif/pyvc)"] + [f"library model: {m}" for m in ded["models_used"]]
                            + [f"assumed callee contract: {s.target} -- {(s.__doc__ or '').strip().splitlines()[0] if s.__doc__ else ''}" for s in getattr(ded["mod"], "CALLEES", [])],
            "functions": sorted(ded["eng"].functions.values(), key=lambda d: d["qualname"]),
            "units": ded["units"],
            "obligation_list": ob_list,
            "solver_time_s": round(solver_time, 2), "symex_time_s": round(ded["t_symex"], 2),
            "vacuous_asserts_in_code": sorted(set(ded["eng"].vacuous_asserts)),
            "not_decided": getattr(ded["mod"], "NOT_DECIDED", []),
            "samples": [t[:1500] for t in ded["texts"][:2]],
        })
    if bounded:
        cov["bounded"] = bounded
        cov["evaluations"] = sum(b.get("evaluations", 0) for b in bounded)
        cov["distinct_nontrivial"] = sum(b.get("distinct_nontrivial", 0) for b in bounded)
        cov["rule"] = " | ".join(f"{b['name']}: {b.get('rule', '')}" for b in bounded)
        cov.setdefault("samples", [])
        for b in bounded:
            cov["samples"].extend(b.get("samples", [])[:2])
    if ded is not None and proof_ok and n_dis == n_ob and not any(e["status"].startswith("refuted") for e in ob_list):
        ev["level"] = "proof"
    elif ded is not None:
        ev["level"] = "other"
        cov["explanation"] = (f"deductive obligations: {n_dis} discharged of {n_ob}; "
                              f"{sum(1 for e in ob_list if e['status'].startswith('refuted-known'))} refuted and listed as known findings; "
                              f"{len(undecided)} undecided; {len(violations)} new violations. "
                              "Level 'proof' is only written when every obligation is discharged.")
    else:
        ev["level"] = "exploration"
    ev["coverage"] = cov
    ev["assumptions"] = ASSUMPTIONS_COMMON + (list(getattr(ded["mod"], "ASSUMPTIONS", [])) if ded else []) + \
        (list(getattr(smod, "ASSUMPTIONS", [])) if smod else [])
    ev["known_findings_reported"] = [kf.get("what") for kf, _ in known_hits]
    path = os.path.join(ROOT, "evidence", f"{prop}.json")
    json.dump(ev, open(path, "w"), indent=1, default=str)
    try:
        import jsonschema
        schema = json.load(open("/root/.vp/EVIDENCE.schema.json"))
        jsonschema.validate(json.load(open(path)), schema)
    except FileNotFoundError:
        pass
    except Exception as e:
        print(f"CHECKER-ERROR property={prop} evidence does not validate: {str(e)[:300]}")
        return EXIT_CHECKER

    print(f"{prop} [{tier}] obligations={n_ob} discharged={n_dis} known={len(seen_kf)} "
          f"violations={len(violations)} undecided={len(undecided)} standins={len(bounded)} wall={wall:.1f}s")
    if violations:
        return EXIT_VIOLATION
    if checker_errors:
        return EXIT_CHECKER
    if undecided:
        return EXIT_UNDECIDED
    return EXIT_OK


def write_replay(prop, rep_dir, i, ob, res, ded, mod):
    """replay the solver's counterexample on the real code when the spec knows how"""
    model = res.get("model", {})
    user_model = {k: v for k, v in model.items() if "!" not in k}
    rec = {"property": prop, "obligation": ob.full_name(), "unit": ob.unit, "where": ob.where,
           "solver": res.get("solver"), "solver_model": user_model,
           "goal": str(ob.goal)[:2000]}
    confirmed = False
    spec = None
    for s in getattr(mod, "UNITS", []):
        if s.target == ob.unit:
            spec = s
    rp = getattr(spec, "replay", None)
    from . import replay as _replay
    try:
        out = rp(model, ob) if rp is not None else None
        if out is None:
            out = _replay.generic_replay(ob)
        if out is not None:
            rec["replay"] = out
            confirmed = bool(out.get("confirmed"))
    except Exception as e:
        rec["replay_error"] = repr(e) + traceback.format_exc()[-800:]
    if not confirmed:
        rec["note"] = ("no-failing-input-found: the obligation is refuted by the solver (model above, smt2 below); "
                       "no concrete failing input was reproduced on the real code")
        rec["smt2"] = ded["texts"][i][:20000]
    path = os.path.join(rep_dir, f"ob_{i:04d}.json")
    json.dump(rec, open(path, "w"), indent=1, default=str)
    return path, confirmed
