"""pyvc.engine -- specs (contracts), verification of a unit, modular application at call sites."""
from __future__ import annotations

import importlib
import inspect
import sys
import time
import traceback
import types

import z3

from .core import (SV, CheckerError, Ctx, ExcValue, Obligation, OutOfSubset, PathInfeasible, PathEnd,
                   SymObj, SymRaise, Symbolic, explore)
from .interp import Interp, func_ast, source_hash, is_repo_function


def resolve(qualified: str):
    """'leaspy.variables.state:State.__setitem__' -> the real function object"""
    modname, _, qn = qualified.partition(":")
    mod = importlib.import_module(modname)
    obj = mod
    parent = None
    for part in qn.split("."):
        parent = obj
        obj = inspect.getattr_static(obj, part) if inspect.isclass(obj) else getattr(obj, part)
    if isinstance(obj, (staticmethod, classmethod)):
        obj = obj.__func__
    if isinstance(obj, property):
        obj = obj.fget
    w = getattr(obj, "__wrapped__", None)
    if w is not None and inspect.isgeneratorfunction(w):
        obj = obj  # keep the decorated object as key; body comes from __wrapped__
    return obj


class Outcome:
    def __init__(self, kind, value=None, exc=None, node=None):
        self.kind = kind          # 'return' | 'raise'
        self.value = value
        self.exc = exc
        self.node = node

    def __repr__(self):
        return f"Outcome({self.kind}, {self.value if self.kind == 'return' else self.exc})"


class Spec:
    """A contract on one real function.

    Subclasses define:
      target      : 'module:qualname'
      configs()   : finite case split of the input space (list of dicts / labels)
      setup(cx,cfg) -> dict with 'args', 'kwargs' (symbolic inputs) and anything post() needs
      pre(cx, st)   -> list[(name, z3 Bool)]          (assumed when verifying, proved at call sites)
      post(cx, st, out) -> list[(name, z3 Bool)]      (proved when verifying, assumed at call sites)
        `out` is an Outcome; clauses for raise-outcomes state when an exception is *allowed*.
      frame(cx, st) -> list of locations that may be written  (None = unchecked)
      apply(it, args, kwargs) -> value                 (use at call sites; default built from the above)
    """
    target = None
    inline = ()            # qualified names of helpers to inline (documentation; default policy inlines)
    loops = {}             # {(func qualname, ordinal): LoopSpec}
    allowed_exceptions = ()   # exception classes whose escape is decided by post(); others = violation
    max_paths = 2000

    def configs(self):
        return [{}]

    def can_apply(self):
        return type(self).bind is not Spec.bind or type(self).apply is not Spec.apply

    # hooks with defaults
    def snap(self, cx, st):
        return None

    def raises(self, cx, st):
        """[(exception class, z3 Bool condition on the pre-state)]: the function raises that class
        exactly when the condition holds (and returns normally when none holds)."""
        return []

    def post(self, cx, st, out):
        return []

    def bind(self, it, args, kwargs):
        raise OutOfSubset(f"spec {self.target} cannot be applied at call sites (no bind())")

    def havoc(self, cx, st):
        return None

    def result(self, cx, st):
        return None

    def apply(self, it, args, kwargs):
        cx = it.cx
        st = self.bind(it, args, kwargs)
        tag = self.target.split(":")[-1]
        for name, f in self.pre(cx, st):
            cx.prove(f"call {tag}: pre {name}", f)
        self.snap(cx, st)
        for cls, cond in self.raises(cx, st):
            if cx.branch(cond):
                raise SymRaise(ExcValue(cls, ("<by contract>",)))
        self.havoc(cx, st)
        res = self.result(cx, st)
        out = Outcome("return", value=res)
        for name, f in self.post(cx, st, out):
            cx.assume(f)
        return res

    def cfg_label(self, cfg):
        return ",".join(f"{k}={v}" for k, v in cfg.items()) if isinstance(cfg, dict) else str(cfg)

    def pre(self, cx, st):
        return []

    def frame(self, cx, st):
        return None

    def background(self, cx):
        return []


class Engine:
    def __init__(self):
        self.specs = {}          # id(func) -> (func, spec)
        self.current = None      # spec under verification
        self.functions = {}      # qualname -> info for evidence
        self.vacuous_asserts = []
        self.fstring_hook = None
        self._none = {}          # sort name -> none const
        self._pytypes = {}
        self.binop_hooks = []
        self.attr_hooks = []
        self.loop_specs = {}     # (func qualname, ordinal) -> LoopSpec
        self.out_of_subset = []

    # --- registry
    def register(self, spec: Spec):
        f = resolve(spec.target)
        spec.func = f
        self.specs.setdefault(id(f), []).append((f, spec))
        w = getattr(f, "__wrapped__", None)
        if w is not None:
            self.specs.setdefault(id(w), []).append((w, spec))
        return spec

    def spec_for(self, f):
        try:
            ents = self.specs.get(id(f))
        except Exception:
            return None
        if not ents:
            return None
        best = None
        for g, sp in ents:
            if g is f:
                if sp.can_apply() and sp is not self.current:
                    return sp
                best = best or sp
        return best

    def is_current_target(self, f, it):
        """the function under verification is executed (not replaced by its contract) at depth 0"""
        return self.current is not None and self.current.func is f and len(it.frames) == 0

    def declare_none(self, sort, const, pytype=None):
        self._none[sort.name()] = const
        if pytype is not None:
            self._pytypes[sort.name()] = pytype

    def none_const(self, sort):
        return self._none.get(sort.name())

    def python_type_of_sort(self, sort):
        return self._pytypes.get(sort.name())

    def sort_binop(self, op, a, b):
        for h in self.binop_hooks:
            r = h(op, a, b)
            if r is not None:
                return r
        return None

    def codec_for(self, v):
        """codec of a collection element, from a sample value"""
        from .coll import INT, REAL, STR, BOOL, Codec
        if isinstance(v, SV):
            if v.kind.startswith("u:"):
                return Codec(v.e.sort(), wrap=lambda e, k=v.kind: SV(e, k))
            return {"int": INT, "real": REAL, "str": STR, "bool": BOOL}[v.kind]
        if isinstance(v, bool):
            return BOOL
        if isinstance(v, int):
            return INT
        if isinstance(v, float):
            return REAL
        raise OutOfSubset(f"no codec for element {v!r}")

    def loop_spec(self, fr, ordinal):
        return self.loop_specs.get((fr.func.__qualname__, ordinal))

    def note_function(self, func, inlined):
        qn = f"{func.__module__}:{func.__qualname__}"
        if qn not in self.functions:
            node, path, seg = func_ast(func)
            self.functions[qn] = {
                "qualname": qn, "file": path, "line": node.lineno,
                "end_line": getattr(node, "end_lineno", node.lineno),
                "sha256_16": source_hash(func), "role": "inlined" if inlined else "under-contract",
            }
        elif not inlined:
            self.functions[qn]["role"] = "under-contract"

    def note_vacuous_assert(self, fr, node):
        self.vacuous_asserts.append(f"{fr.name}:{node.lineno}")

    # --- modular application of a contract at a call site
    def apply_spec(self, it, spec, args, kwargs, node):
        ap = getattr(spec, "apply", None)
        if ap is None:
            raise OutOfSubset(f"spec for {spec.target} has no apply()", node)
        self.functions.setdefault(spec.target, {"qualname": spec.target, "role": "callee-contract"})
        if hasattr(it.cx, "applied_specs"):
            it.cx.applied_specs.append(spec.target)
        return ap(it, args, kwargs)

    # --- verification of one spec
    def verify(self, spec: Spec, log=None):
        """returns list of Obligation (all paths, all configs) + diagnostics"""
        all_obs, diags = [], []
        for cfg in spec.configs():
            obs, d = self.verify_cfg(spec, cfg)
            all_obs.extend(obs)
            diags.append(d)
        return all_obs, diags

    def verify_cfg(self, spec: Spec, cfg):
        self.current = spec
        for k, ls in getattr(spec, "loops", {}).items():
            self.loop_specs[k] = ls
        all_obs = []
        diags = []
        func = spec.func
        body_func = getattr(func, "__wrapped__", None) if inspect.isgeneratorfunction(
            getattr(func, "__wrapped__", None) or (lambda: 0)) else None
        if True:
            label = spec.cfg_label(cfg)

            def run_once(prefix, cfg=cfg, label=label):
                cx = Ctx(prefix, unit=spec, cfg=label)
                it = Interp(cx, self)
                cx.it = it
                try:
                    for ax in spec.background(cx):
                        cx.add_background(ax)
                    st = spec.setup(cx, cfg)
                    st["cfg"] = cfg
                    for name, f in spec.pre(cx, st):
                        cx.assume(f)
                    cx.pre_len = len(cx.pc)
                    if cx.check(z3.BoolVal(True)) == z3.unsat:
                        raise CheckerError(f"vacuous contract: precondition of {spec.target} [{label}] is unsatisfiable")
                    spec.snap(cx, st)
                    from .models import deep_copy_value
                    try:
                        cx.initial = deep_copy_value(it, {"args": tuple(st.get("args", ())), "kwargs": dict(st.get("kwargs", {}))}, {})
                    except OutOfSubset:
                        cx.initial = None
                    cx.final_args = tuple(st.get("args", ()))
                    cx.applied_specs = []
                    fr = spec.frame(cx, st)
                    wlog = []
                    if fr is not None:
                        cx.write_logs.append(wlog)
                        preexisting = _reachable_ids(st.get("args", ()), st.get("kwargs", {}))
                    try:
                        gen = getattr(func, "__wrapped__", None)
                        if gen is not None and inspect.isgeneratorfunction(gen):
                            # a @contextmanager: run the generator body with the with-block supplied by the spec
                            val = it.call_function(gen, st.get("args", ()), st.get("kwargs", {}), yield_body=st["body"])
                        elif getattr(spec, "fragment", None) is not None:
                            # a statement range of the real function, extracted mechanically from its current AST;
                            # everything outside the range is dropped (stated in the spec's docstring)
                            val = self.run_fragment(it, spec, st)
                        elif is_repo_function(func):
                            val = it.call_function(func, st.get("args", ()), st.get("kwargs", {}))
                        else:
                            val = it.call(func, st.get("args", ()), st.get("kwargs", {}))
                        out = Outcome("return", value=val)
                    except SymRaise as r:
                        out = Outcome("raise", exc=r.exc, node=r.node)
                    if fr is not None:
                        cx.write_logs.remove(wlog)
                        if out.kind == "raise" and getattr(spec, "frame_on_raise", None) is not None:
                            fr = spec.frame_on_raise(cx, st)       # what a refused call may have written
                        self._check_frame(cx, spec, st, fr, [w for w in wlog if w[0] == "local" or w[1] in preexisting])
                    cx.outcome = out
                    tag = spec.target.split(":")[-1]
                    rs = spec.raises(cx, st)
                    if out.kind == "raise" and issubclass(out.exc.cls, tuple(getattr(spec, "may_raise", ()))):
                        pass     # an exception class the contract leaves unconstrained
                    elif out.kind == "raise":
                        where = f"line {getattr(out.node, 'lineno', '?')}" if out.node is not None else None
                        allowed = [c for k, c in rs if issubclass(out.exc.cls, k)]
                        goal = z3.Or(*allowed) if allowed else z3.BoolVal(False)
                        cx.prove(f"{tag}: raises {out.exc.cls.__name__} only when specified", goal, where=where,
                                 assume_after=False, meta={"outcome": out.exc.cls.__name__})
                    else:
                        if rs:
                            cx.prove(f"{tag}: returns only when no raise-condition holds",
                                     z3.And(*[z3.Not(c) for k, c in rs]), assume_after=False,
                                     meta={"outcome": "return"})
                        for name, goal in spec.post(cx, st, out):
                            cx.prove(f"{tag}: {name}", goal, assume_after=False,
                                     meta={"outcome": "return", **getattr(spec, "ob_meta", {})})
                except PathInfeasible:
                    cx.infeasible = True
                except PathEnd:
                    cx.ended = True
                except OutOfSubset as e:
                    cx.oos = e
                    self.out_of_subset.append((spec.target, label, str(e), e.where))
                return cx

            cxs = explore(run_once, max_paths=spec.max_paths)
            for cx in cxs:
                all_obs.extend(cx.obligations)
            diags.append({"cfg": label, "paths": len(cxs),
                          "infeasible": sum(1 for c in cxs if getattr(c, "infeasible", False)),
                          "oos": [str(c.oos) + " @ " + str(c.oos.where) for c in cxs if getattr(c, "oos", None)],
                          "cxs": cxs})
        self.current = None
        return all_obs, diags[0]

    def run_fragment(self, it, spec, st):
        """execute the consecutive statements [first .. last] of the real function body that match the spec's
        predicates (on ast.unparse text); locals come from st['env']; returns the final local environment"""
        import ast as _ast
        from .interp import Frame, func_ast, defining_class
        func = spec.func
        node, path, seg = func_ast(func)
        first_pred, last_pred = spec.fragment
        stmts = None

        def search(body):
            nonlocal stmts
            for i, s_ in enumerate(body):
                if stmts is None and first_pred(_ast.unparse(s_)):
                    for j in range(i, len(body)):
                        if last_pred(_ast.unparse(body[j])):
                            stmts = body[i:j + 1]
                            return
                for fld in ("body", "orelse", "finalbody"):
                    sub = getattr(s_, fld, None)
                    if isinstance(sub, list) and stmts is None:
                        search(sub)
        search(node.body)
        if stmts is None:
            raise OutOfSubset(f"fragment of {func.__qualname__} not found (the code no longer has the expected statements)")
        self.note_function(func, inlined=False)
        self.functions[f"{func.__module__}:{func.__qualname__}"]["fragment_lines"] = [stmts[0].lineno, getattr(stmts[-1], "end_lineno", stmts[-1].lineno)]
        env = dict(st["env"])
        fr = Frame(func, env, func.__globals__, defining_class(func), func.__qualname__)
        fr.path = path
        it.frames.append(fr)
        try:
            from .interp import _Return
            try:
                it.exec_block(stmts, fr)
            except _Return as r:
                env["__return__"] = r.value       # the range ends with (or contains) a return statement
        finally:
            it.frames.pop()
        return env

    def _check_frame(self, cx, spec, st, frame, writes):
        allowed = set()
        for loc in frame:
            allowed.add(loc)
        for w in writes:
            if w[0] == "local":
                continue
            if w not in allowed and (w[0], w[1], None) not in allowed:
                cx.prove(f"frame:{w[0]}:{w[2] if len(w) > 2 else ''}", z3.BoolVal(False),
                         assume_after=False, meta={"write": repr(w)})


def _reachable_ids(*roots):
    """ids of the heap objects reachable from the arguments (objects allocated by the call are exempt
    from the frame condition)"""
    seen = set()
    stack = list(roots)
    while stack:
        v = stack.pop()
        if id(v) in seen:
            continue
        if isinstance(v, SymObj):
            seen.add(id(v))
            stack.extend(v.f.values())
        elif isinstance(v, dict):
            seen.add(id(v))
            stack.extend(v.values())
        elif isinstance(v, (list, tuple, set, frozenset)):
            seen.add(id(v))
            stack.extend(v)
        elif isinstance(v, Symbolic):
            seen.add(id(v))
    return seen


def loc_field(obj, name):
    return ("field", id(obj), name)


def loc_obj(obj):
    return ("field", id(obj), None)
