#!/bin/bash
# Build the overlay interpreter /verif/.venv (offline): Python 3.12 of /venv + solver wheels
# from /opt/veriftools/wheels + a .pth that adds /venv's site-packages (torch, pandas, ...).
set -euo pipefail
cd "$(dirname "$0")"
export PIP_NO_INDEX=1
if [ ! -x .venv/bin/python ] || ! .venv/bin/python -c "import z3, cvc5, jsonschema, torch" 2>/dev/null; then
  rm -rf .venv
  /venv/bin/python -m venv .venv --without-pip
  SP=$(.venv/bin/python -c "import sysconfig;print(sysconfig.get_paths()['purelib'])")
  /venv/bin/python -m pip install --quiet --no-index --find-links /opt/veriftools/wheels \
      --target "$SP" --no-deps z3-solver cvc5 deal icontract crosshair-tool asttokens typeshed_client typing_inspect mypy_extensions pygls lsprotocol cattrs
  echo "import site; site.addsitedir('/venv/lib/python3.12/site-packages')" > "$SP/zz_venv_overlay.pth"
fi
.venv/bin/python - <<'PY'
import z3, cvc5, jsonschema, torch, sys
print("overlay ok: python", sys.version.split()[0], "z3", z3.get_version_string(), "torch", torch.__version__)
PY
if [ -d lemmas ] && [ -x lemmas/build.sh ]; then ./lemmas/build.sh; fi
